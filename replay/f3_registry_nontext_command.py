#!/venv/bin/python
"""Scenario replay for finding F3 (C18): a datagram whose command is not text.
Statement: 'No datagram ... non-text command ... stops the registry from answering others'.
Exit 1 (prints what was observed) if the defect reproduces on the tree given as argv[1], else 0."""
import socket
import sys
import threading
import time

sys.path.insert(0, sys.argv[1] if len(sys.argv) > 1 else "/repo")
from rpyc.utils.registry import UDPRegistryServer  # noqa: E402
from rpyc.core import brine  # noqa: E402


def main():
    import logging
    logging.disable(logging.CRITICAL)
    srv = UDPRegistryServer(host="127.0.0.1", port=0, pruning_timeout=60)
    port = srv.sock.getsockname()[1]
    t = threading.Thread(target=srv.start, daemon=True)
    t.start()
    time.sleep(0.3)
    s = socket.socket(socket.AF_INET, socket.SOCK_DGRAM)
    s.settimeout(3)

    def ask(msg):
        s.sendto(brine.dump(msg), ("127.0.0.1", port))
        try:
            return brine.load(s.recvfrom(65000)[0])
        except Exception as e:
            return "NO REPLY (%s)" % type(e).__name__
    assert ask(("RPYC", "REGISTER", (("FOO",), 12345))) == "OK"
    s.sendto(brine.dump(("RPYC", 7, ())), ("127.0.0.1", port))          # the command is an int
    time.sleep(0.5)
    ans = ask(("RPYC", "QUERY", ("FOO",)))
    problems = []
    if not t.is_alive():
        problems.append("the serving loop ended")
    if ans != (("127.0.0.1", 12345),):
        problems.append("a later query was answered with %r" % (ans,))
    try:
        srv.close()
    except Exception:
        pass
    if problems:
        print("REPRODUCED: " + "; ".join(problems))
        return 1
    print("not reproduced: the registry kept answering")
    return 0


if __name__ == "__main__":
    sys.exit(main())
