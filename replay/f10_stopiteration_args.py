#!/venv/bin/python
"""Scenario replay for finding F10 (C09): the StopIteration fast path drops the exception's arguments.
Statement: 'an instance of the same built-in exception class ... with the same immutable arguments'.
Exit 1 (prints what was observed) if the defect reproduces on the tree given as argv[1], else 0."""
import socket
import sys
import threading

sys.path.insert(0, sys.argv[1] if len(sys.argv) > 1 else "/repo")
import rpyc  # noqa: E402


class Svc(rpyc.Service):
    def exposed_stop(self):
        raise StopIteration("the generator's return value", 42)


def main():
    a, b = socket.socketpair()
    server = rpyc.connect_stream(rpyc.SocketStream(a), Svc)
    threading.Thread(target=server.serve_all, daemon=True).start()
    client = rpyc.connect_stream(rpyc.SocketStream(b), rpyc.VoidService, config={"sync_request_timeout": 10})
    problems = []
    try:
        client.root.stop()
        problems.append("no exception at all")
    except StopIteration as e:
        if e.args != ("the generator's return value", 42):
            problems.append("StopIteration('the generator\\'s return value', 42) surfaced with args %r" % (e.args,))
    except BaseException as e:
        problems.append("surfaced as %s: %s" % (type(e).__name__, e))
    if problems:
        print("REPRODUCED: " + "; ".join(problems))
        return 1
    print("not reproduced: the arguments arrived")
    return 0


if __name__ == "__main__":
    sys.exit(main())
