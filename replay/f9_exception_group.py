#!/venv/bin/python
"""Scenario replay for finding F9 (C09): a built-in exception class that cannot be rebuilt at the requester.
Statement: 'surfaces at the requester as an instance of the same built-in exception class'.
Exit 1 (prints what was observed) if the defect reproduces on the tree given as argv[1], else 0."""
import socket
import sys
import threading

sys.path.insert(0, sys.argv[1] if len(sys.argv) > 1 else "/repo")
import rpyc  # noqa: E402


class Svc(rpyc.Service):
    def exposed_boom(self):
        raise ExceptionGroup("several things failed", [ValueError(1), KeyError("k")])

    def exposed_add(self, a, b):
        return a + b


def main():
    a, b = socket.socketpair()
    server = rpyc.connect_stream(rpyc.SocketStream(a), Svc)
    threading.Thread(target=server.serve_all, daemon=True).start()
    client = rpyc.connect_stream(rpyc.SocketStream(b), rpyc.VoidService, config={"sync_request_timeout": 10})
    problems = []
    try:
        client.root.boom()
        problems.append("no exception at all")
    except ExceptionGroup:
        pass
    except BaseException as e:
        problems.append("a remote ExceptionGroup surfaced as %s: %s" % (type(e).__name__, e))
    if problems:
        print("REPRODUCED: " + "; ".join(problems))
        return 1
    print("not reproduced: the requester caught an ExceptionGroup")
    return 0


if __name__ == "__main__":
    sys.exit(main())
