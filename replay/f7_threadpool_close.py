#!/venv/bin/python
"""Scenario replay for finding F7 (C17): closing a ThreadPoolServer leaves its clients connected.
Statement: 'Closing a server ... terminates every client connection it is serving - each such client promptly observes
end-of-stream'.  Exit 1 (prints what was observed) if the defect reproduces on the tree given as argv[1], else 0."""
import sys
import threading
import time

sys.path.insert(0, sys.argv[1] if len(sys.argv) > 1 else "/repo")
import rpyc  # noqa: E402
from rpyc.utils.server import ThreadPoolServer  # noqa: E402


class Svc(rpyc.Service):
    def exposed_add(self, a, b):
        return a + b


def main():
    import logging
    logging.disable(logging.CRITICAL)
    srv = ThreadPoolServer(Svc, hostname="127.0.0.1", port=0, nbThreads=2, auto_register=False)
    srv._listen()
    t = threading.Thread(target=srv.start, daemon=True)
    t.start()
    time.sleep(0.3)
    c = rpyc.connect("127.0.0.1", srv.port, config={"sync_request_timeout": 5})
    assert c.root.add(1, 2) == 3
    time.sleep(0.3)
    closer = threading.Thread(target=srv.close, daemon=True)
    closer.start()
    closer.join(10)
    problems = []
    if closer.is_alive():
        problems.append("close() did not return within 10 s")
    t0 = time.time()
    try:
        c.root.add(3, 4)
        problems.append("a call on the client still succeeded after the server was closed")
    except EOFError:
        pass
    except Exception as e:
        problems.append("the client saw %s after %.1f s instead of end-of-stream" % (type(e).__name__, time.time() - t0))
    if problems:
        print("REPRODUCED: " + "; ".join(problems))
        return 1
    print("not reproduced: the client saw end-of-stream after %.2f s" % (time.time() - t0))
    return 0


if __name__ == "__main__":
    rc = main()
    sys.stdout.flush()
    import os
    os._exit(rc)
