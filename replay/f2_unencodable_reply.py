#!/venv/bin/python
"""Scenario replay for finding F2 (C08): a request whose RESULT cannot be encoded.
Statement: 'the requester gets an exception and the connection remains usable'.
Exit 1 (prints what was observed) if the defect reproduces on the tree given as argv[1], else 0."""
import socket
import sys
import threading

sys.path.insert(0, sys.argv[1] if len(sys.argv) > 1 else "/repo")
import rpyc  # noqa: E402


class Svc(rpyc.Service):
    def exposed_huge(self):
        return 10 ** 5000            # dumpable() says yes; str() of it exceeds the interpreter's digit limit

    def exposed_add(self, a, b):
        return a + b


def main():
    a, b = socket.socketpair()
    server = rpyc.connect_stream(rpyc.SocketStream(a), Svc)
    t = threading.Thread(target=server.serve_all, daemon=True)
    t.start()
    client = rpyc.connect_stream(rpyc.SocketStream(b), rpyc.VoidService, config={"sync_request_timeout": 10})
    problems = []
    assert client.root.add(1, 2) == 3
    try:
        client.root.huge()
        problems.append("no exception for a result that cannot be encoded")
    except EOFError as e:
        problems.append("requester got EOFError (%s) instead of an exception reply" % e)
    except Exception as e:
        pass
    try:
        if client.root.add(20, 22) != 42:
            problems.append("wrong answer after the failing request")
    except Exception as e:
        problems.append("connection unusable afterwards: %s: %s" % (type(e).__name__, e))
    if problems:
        print("REPRODUCED: " + "; ".join(problems))
        return 1
    print("not reproduced: the requester got an exception and the connection stayed usable")
    return 0


if __name__ == "__main__":
    sys.exit(main())
