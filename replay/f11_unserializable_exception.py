#!/venv/bin/python
"""Scenario replay for finding F11 (C08, C09): an exception that cannot be turned into a record.
A handler raises an exception one of whose public attributes (or whose argument's repr) raises: vinegar.dump raises inside
Connection._dispatch_request's except-branch, no reply is sent, serve_all tears the connection down.
Statement (C08): 'every request gets exactly one response'.
Exit 1 (prints what was observed) if the defect reproduces on the tree given as argv[1], else 0."""
import socket
import sys
import threading

sys.path.insert(0, sys.argv[1] if len(sys.argv) > 1 else "/repo")
import rpyc  # noqa: E402


class Touchy(Exception):
    @property
    def detail(self):
        raise RuntimeError("computing this attribute fails")


class Svc(rpyc.Service):
    def exposed_boom(self):
        raise Touchy("something went wrong")

    def exposed_add(self, a, b):
        return a + b


def main():
    a, b = socket.socketpair()
    server = rpyc.connect_stream(rpyc.SocketStream(a), Svc)
    threading.Thread(target=server.serve_all, daemon=True).start()
    client = rpyc.connect_stream(rpyc.SocketStream(b), rpyc.VoidService, config={"sync_request_timeout": 10})
    problems = []
    assert client.root.add(1, 2) == 3
    try:
        client.root.boom()
        problems.append("no exception at all")
    except EOFError as e:
        problems.append("requester got EOFError (%s) instead of an exception reply" % e)
    except Exception:
        pass
    try:
        if client.root.add(20, 22) != 42:
            problems.append("wrong answer after the failing request")
    except Exception as e:
        problems.append("connection unusable afterwards: %s: %s" % (type(e).__name__, e))
    if problems:
        print("REPRODUCED: " + "; ".join(problems))
        return 1
    print("not reproduced: the requester got an exception and the connection stayed usable")
    return 0


if __name__ == "__main__":
    sys.exit(main())
