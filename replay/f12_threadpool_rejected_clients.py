#!/venv/bin/python
"""Scenario replay for finding F12 (C17): a thread-pool server keeps table entries for clients it rejected.
Statement: 'After any sequence of clients connecting and leaving ... the server holds no sockets, descriptors or table entries
for departed clients'.  Exit 1 (prints what was observed) if the defect reproduces on the tree given as argv[1], else 0."""
import sys, threading, time, socket, logging
sys.path.insert(0, sys.argv[1] if len(sys.argv) > 1 else "/repo")
logging.disable(logging.CRITICAL)
import rpyc  # noqa: E402
from rpyc.utils.server import ThreadPoolServer  # noqa: E402
from rpyc.utils.authenticators import AuthenticationError  # noqa: E402


def auth(sock):
    raise AuthenticationError("no")


srv = ThreadPoolServer(rpyc.VoidService, hostname="127.0.0.1", port=0, nbThreads=1, authenticator=auth, auto_register=False)
srv._listen()
threading.Thread(target=srv.start, daemon=True).start()
time.sleep(0.3)
for i in range(3):
    s = socket.create_connection(("127.0.0.1", srv.port))
    time.sleep(0.2)
    s.close()
time.sleep(0.5)
n = len(srv.clients)
if n:
    print("REPRODUCED: after 3 rejected clients have left, server.clients still tracks %d socket objects" % n)
else:
    print("not reproduced: no entries are kept for rejected clients")
sys.stdout.flush()
import os
os._exit(1 if n else 0)
