"""Primitive (non-forking) operations on engine values.

Every primitive returns ``(value, errs)`` where ``errs`` is a list of ``(exc_class, cond)``:
the operation raises ``exc_class`` exactly when z3 Bool ``cond`` holds (``True`` = always).
The executor forks on these; the spec evaluator requires them to be absent / ignores them.
Concrete Python values are represented by themselves.
"""
import z3
from .sorts import (HeapRef, Sym, SReal, SInt, SBool, SBytes, SStr, SVal, SVL, SF64, Val, VL, Bytes, Int, Bool, F64,
                    seq_lit, fresh, typeof, type_id, TYPE_ID, wrap_sort)


class Unsupported(Exception):
    """construct outside the verifier's subset (checker error, never a verdict)"""


TRUE = z3.BoolVal(True)
FALSE = z3.BoolVal(False)


def is_sym(x):
    return isinstance(x, Sym)


def zint(x):
    if isinstance(x, SInt):
        return x.z
    if isinstance(x, bool):
        return z3.IntVal(int(x))
    if isinstance(x, int):
        return z3.IntVal(x)
    if isinstance(x, SBool):
        return z3.If(x.z, 1, 0)
    raise Unsupported("not an int: %r" % (x,))


def zbool(x):
    if isinstance(x, SBool):
        return x.z
    if isinstance(x, bool):
        return z3.BoolVal(x)
    raise Unsupported("not a bool: %r" % (x,))


def zseq(x):
    if isinstance(x, (SBytes, SStr)):
        return x.z
    if isinstance(x, (bytes, str)):
        return seq_lit(x)
    raise Unsupported("not a bytes/str: %r" % (x,))


def is_reallike(x):
    return isinstance(x, SReal) or (isinstance(x, float)) or is_intlike(x)


def zreal(x):
    if isinstance(x, SReal):
        return x.z
    if isinstance(x, float):
        return z3.RealVal(repr(x))
    return z3.ToReal(zint(x))


def r2v(z):
    z = z3.simplify(z)
    return SReal(z)


def is_intlike(x):
    return isinstance(x, (SInt, SBool)) or (isinstance(x, int))


def is_byteslike(x):
    return isinstance(x, (SBytes, bytes))


def is_strlike(x):
    return isinstance(x, (SStr, str))


def mk(z):
    """wrap a z3 term, folding literals back to concrete Python where cheap"""
    z = z3.simplify(z) if False else z
    return wrap_sort(z)


# ---------------------------------------------------------------------------------------------
# injection of static values into Val
# ---------------------------------------------------------------------------------------------
_const_refs = {}


def const_ref_oid(obj):
    """stable heap id for a concrete Python object that has to travel as a VRef"""
    key = id(obj)
    if key not in _const_refs:
        _const_refs[key] = (1000000 + len(_const_refs), obj)
    return _const_refs[key][0]


def to_val(x):
    """z3 Val term for an engine value"""
    if isinstance(x, SVal):
        return x.z
    if isinstance(x, Sym) and hasattr(type(x), "as_val"):
        return x.as_val()
    if x is None:
        return Val.VNone
    if x is NotImplemented:
        return Val.VNotImpl
    if x is Ellipsis:
        return Val.VEllipsis
    if isinstance(x, bool):
        return Val.VBool(z3.BoolVal(x))
    if isinstance(x, SBool):
        return Val.VBool(x.z)
    if type(x) is int:
        return Val.VInt(z3.IntVal(x))
    if isinstance(x, SInt):
        return Val.VInt(x.z)
    if isinstance(x, SF64):
        return Val.VFloat(x.z)
    if isinstance(x, SReal):
        return Val.VFloat(REAL_F64(x.z))
    if type(x) is bytes or isinstance(x, SBytes):
        return Val.VBytes(zseq(x))
    if type(x) is str or isinstance(x, SStr):
        return Val.VStr(zseq(x))
    if type(x) is tuple:
        return Val.VTuple(to_vl(x))
    if type(x) is list:
        return Val.VTuple(to_vl(x))      # a freshly built list used as a value (slot lists): its current contents
    if isinstance(x, SVL):
        return Val.VTuple(x.z)
    if isinstance(x, HeapRef):
        return Val.VRef(x.oid_term())
    if type(x) is float:
        return Val.VFloat(f64_const(x))
    return Val.VRef(z3.IntVal(const_ref_oid(x)))


_f64_consts = {}


def f64_const(x):
    import struct
    k = struct.pack("!d", x)
    if k not in _f64_consts:
        _f64_consts[k] = z3.Const("f64c_%s" % k.hex(), F64)
    return _f64_consts[k]


def to_vl(items):
    z = VL.nil
    for it in reversed(list(items)):
        z = VL.cons(to_val(it), z)
    return z


# ---------------------------------------------------------------------------------------------
# truthiness
# ---------------------------------------------------------------------------------------------
vtruth = z3.Function("vtruth_ref", Int, Bool)     # truth value of an arbitrary heap object


def val_truth(v):
    return z3.If(Val.is_VNone(v), False,
           z3.If(Val.is_VBool(v), Val.vb(v),
           z3.If(Val.is_VInt(v), Val.vi(v) != 0,
           z3.If(Val.is_VBytes(v), z3.Length(Val.vby(v)) > 0,
           z3.If(Val.is_VStr(v), z3.Length(Val.vs(v)) > 0,
           z3.If(Val.is_VTuple(v), Val.titems(v) != VL.nil,
           z3.If(Val.is_VFset(v), Val.fitems(v) != VL.nil,
           z3.If(Val.is_VRef(v), vtruth(Val.oid(v)),
           z3.If(Val.is_VFloat(v), f64_truth(Val.vf(v)),
           z3.If(Val.is_VComplex(v), z3.Or(f64_truth(Val.vre(v)), f64_truth(Val.vim(v))),
                 True))))))))))


f64_truth = z3.Function("f64_truth", F64, Bool)


def truth(x):
    """truth value of an engine value: Python bool or z3 Bool"""
    if isinstance(x, SBool):
        return x.z
    if isinstance(x, SInt):
        return x.z != 0
    if isinstance(x, SReal):
        return x.z != 0
    if isinstance(x, (SBytes, SStr)):
        return z3.Length(x.z) > 0
    if isinstance(x, SVal):
        return val_truth(x.z)
    if isinstance(x, SVL):
        return x.z != VL.nil
    if isinstance(x, Sym):
        raise Unsupported("truth of %r" % (x,))
    if isinstance(x, HeapRef):
        return True
    return bool(x)


def b2v(z):
    """z3 Bool or python bool -> engine value"""
    if isinstance(z, bool):
        return z
    z = z3.simplify(z)
    if z3.is_true(z):
        return True
    if z3.is_false(z):
        return False
    return SBool(z)


def i2v(z):
    if isinstance(z, int):
        return z
    z = z3.simplify(z)
    if z3.is_int_value(z):
        return z.as_long()
    return SInt(z)


# ---------------------------------------------------------------------------------------------
# arithmetic, comparison
# ---------------------------------------------------------------------------------------------
def py_floordiv(a, b):
    # Python floor division for b > 0 coincides with SMT-LIB div for b > 0
    return a / b


def py_mod(a, b):
    return a % b


def binop(op, a, b):
    """returns (value, errs)"""
    import ast
    errs = []
    concrete = not is_sym(a) and not is_sym(b) and not isinstance(a, HeapRef) and not isinstance(b, HeapRef)
    if concrete and not isinstance(a, tuple) and not isinstance(b, tuple):
        try:
            import operator
            f = {ast.Add: operator.add, ast.Sub: operator.sub, ast.Mult: operator.mul,
                 ast.FloorDiv: operator.floordiv, ast.Mod: operator.mod, ast.BitOr: operator.or_,
                 ast.BitAnd: operator.and_, ast.Pow: operator.pow}[type(op)]
            return f(a, b), []
        except KeyError:
            raise Unsupported("binop %s" % type(op).__name__)
        except Exception as e:
            return None, [(type(e), TRUE)]
    if (isinstance(a, SReal) or isinstance(b, SReal)) and is_reallike(a) and is_reallike(b):
        if isinstance(op, ast.Add):
            return r2v(zreal(a) + zreal(b)), []
        if isinstance(op, ast.Sub):
            return r2v(zreal(a) - zreal(b)), []
    if isinstance(op, ast.Add):
        if is_intlike(a) and is_intlike(b):
            return i2v(zint(a) + zint(b)), []
        if is_byteslike(a) and is_byteslike(b):
            return SBytes(z3.Concat(zseq(a), zseq(b))), []
        if is_strlike(a) and is_strlike(b):
            return SStr(z3.Concat(zseq(a), zseq(b))), []
        if isinstance(a, tuple) and isinstance(b, tuple):
            return a + b, []
        if isinstance(a, SVal) or isinstance(b, SVal):
            raise Unsupported("+ on dynamic values")
        return None, [(TypeError, TRUE)]
    if isinstance(op, ast.Sub):
        if is_intlike(a) and is_intlike(b):
            return i2v(zint(a) - zint(b)), []
    if isinstance(op, ast.Mult):
        if is_intlike(a) and is_intlike(b):
            return i2v(zint(a) * zint(b)), []
    if isinstance(op, ast.FloorDiv):
        if is_intlike(a) and isinstance(b, int) and not isinstance(b, bool) and b > 0:
            return i2v(zint(a) / b), []
    if isinstance(op, ast.Mod):
        if is_intlike(a) and isinstance(b, int) and not isinstance(b, bool) and b > 0:
            return i2v(zint(a) % b), []
        if is_strlike(a):
            # text formatting: an uninterpreted function of the format and the operands (pure for plain operands; a heap
            # operand's __str__ would run - not modelled, the result is only used as a name / message)
            r = TEXT_FMT(to_val(a), to_val(b))
            if isinstance(a, str) and "%" in a and a.index("%") > 0:
                r = z3.Concat(seq_lit(a[:a.index("%")]), r)       # the result starts with the format's literal prefix
            return SStr(r), []
    if isinstance(op, ast.BitOr):
        if isinstance(a, (SBool, bool)) and isinstance(b, (SBool, bool)):
            return b2v(z3.Or(zbool(a), zbool(b))), []
    if isinstance(op, ast.BitAnd):
        if isinstance(a, (SBool, bool)) and isinstance(b, (SBool, bool)):
            return b2v(z3.And(zbool(a), zbool(b))), []
    raise Unsupported("binop %s on %r, %r" % (type(op).__name__, a, b))


def same_kind_seq(a, b):
    return (is_byteslike(a) and is_byteslike(b)) or (is_strlike(a) and is_strlike(b))


def eq(a, b):
    """Python == as python bool / z3 Bool.  Exact for the value kinds modelled."""
    if not is_sym(a) and not is_sym(b) and not isinstance(a, HeapRef) and not isinstance(b, HeapRef):
        if isinstance(a, tuple) and isinstance(b, tuple):
            if len(a) != len(b):
                return False
            return z3.And([_z(eq(x, y)) for x, y in zip(a, b)]) if a else True
        try:
            return bool(a == b)
        except Exception:
            raise Unsupported("== on %r %r" % (a, b))
    if (isinstance(a, Sym) and a.kind == "type") or (isinstance(b, Sym) and b.kind == "type"):
        return type_identical(a, b)
    if isinstance(a, SVal) or isinstance(b, SVal):
        if isinstance(a, SVal) and isinstance(b, SVal):
            return val_eq(a.z, b.z)
        s, o = (a, b) if isinstance(a, SVal) else (b, a)
        if isinstance(o, HeapRef) :
            return z3.And(Val.is_VRef(s.z), Val.oid(s.z) == o.oid_term())
        return val_eq(s.z, to_val(o))
    if is_intlike(a) and is_intlike(b):
        return zint(a) == zint(b)
    if (isinstance(a, SReal) or isinstance(b, SReal)) and is_reallike(a) and is_reallike(b):
        return zreal(a) == zreal(b)
    if same_kind_seq(a, b):
        return zseq(a) == zseq(b)
    if isinstance(a, tuple) and isinstance(b, tuple):
        if len(a) != len(b):
            return False
        return z3.And([_z(eq(x, y)) for x, y in zip(a, b)]) if a else True
    if isinstance(a, SF64) and isinstance(b, SF64):
        raise Unsupported("float ==")
    if isinstance(a, Sym) and isinstance(b, Sym) and a.kind in ("vl", "fset") and b.kind in ("vl", "fset"):
        return a.z == b.z
    if isinstance(a, Sym) and a.kind == "vl" and isinstance(b, tuple):
        return a.z == to_vl(b)
    if isinstance(b, Sym) and b.kind == "vl" and isinstance(a, tuple):
        return b.z == to_vl(a)
    if isinstance(a, HeapRef) and isinstance(b, HeapRef):
        return a.oid_term() == b.oid_term()
    # values of different kinds are unequal (int vs bytes, None vs int, ...)
    return False


def _z(x):
    return z3.BoolVal(x) if isinstance(x, bool) else x


def val_eq(x, y):
    """Python == on two Val terms: structural, except bool/int cross-equality (True == 1)."""
    num = lambda v: z3.If(Val.is_VBool(v), z3.If(Val.vb(v), 1, 0), Val.vi(v))
    isnum = lambda v: z3.Or(Val.is_VBool(v), Val.is_VInt(v))
    return z3.If(z3.And(isnum(x), isnum(y)), num(x) == num(y), x == y)


def compare(op, a, b):
    """(value, errs) for a single comparison"""
    import ast
    if isinstance(op, ast.Eq):
        return b2v(eq(a, b)), []
    if isinstance(op, ast.NotEq):
        r = eq(a, b)
        return (not r) if isinstance(r, bool) else b2v(z3.Not(r)), []
    if isinstance(op, (ast.Is, ast.IsNot)):
        r = identical(a, b)
        if isinstance(op, ast.IsNot):
            r = (not r) if isinstance(r, bool) else z3.Not(r)
        return b2v(r), []
    if isinstance(op, (ast.Lt, ast.LtE, ast.Gt, ast.GtE)) and (isinstance(a, SReal) or isinstance(b, SReal)) \
            and is_reallike(a) and is_reallike(b):
        x, y = zreal(a), zreal(b)
        return b2v({ast.Lt: x < y, ast.LtE: x <= y, ast.Gt: x > y, ast.GtE: x >= y}[type(op)]), []
    if isinstance(op, (ast.Lt, ast.LtE, ast.Gt, ast.GtE)):
        if is_intlike(a) and is_intlike(b):
            x, y = zint(a), zint(b)
            r = {ast.Lt: x < y, ast.LtE: x <= y, ast.Gt: x > y, ast.GtE: x >= y}[type(op)]
            return b2v(r), []
        if not is_sym(a) and not is_sym(b):
            import operator
            f = {ast.Lt: operator.lt, ast.LtE: operator.le, ast.Gt: operator.gt, ast.GtE: operator.ge}[type(op)]
            try:
                return f(a, b), []
            except Exception as e:
                return None, [(type(e), TRUE)]
        raise Unsupported("ordering on %r, %r" % (a, b))
    if isinstance(op, (ast.In, ast.NotIn)):
        r = contains(b, a)
        if isinstance(op, ast.NotIn):
            r = (not r) if isinstance(r, bool) else z3.Not(r)
        return b2v(r), []
    raise Unsupported("compare %s" % type(op).__name__)


SINGLETONS = (None, True, False, NotImplemented, Ellipsis)


def type_identical(a, b):
    """identity of two type objects, at least one of them the symbolic type(x) of a dynamic value"""
    ta = a.z if (isinstance(a, Sym) and a.kind == "type") else (z3.IntVal(type_id(a)) if isinstance(a, type) else None)
    tb = b.z if (isinstance(b, Sym) and b.kind == "type") else (z3.IntVal(type_id(b)) if isinstance(b, type) else None)
    if ta is None or tb is None:
        return False
    return ta == tb


def identical(a, b):
    """Python `is` for the cases the subset allows: singletons, classes, heap objects"""
    if (isinstance(a, Sym) and a.kind == "type") or (isinstance(b, Sym) and b.kind == "type"):
        return type_identical(a, b)
    if not is_sym(a) and not is_sym(b):
        if isinstance(a, HeapRef) and isinstance(b, HeapRef):
            return z3.simplify(a.oid_term() == b.oid_term())
        if isinstance(a, HeapRef) or isinstance(b, HeapRef):
            o, c = (a, b) if isinstance(a, HeapRef) else (b, a)
            if False:
                return o.identical_const(c)
            return False
        if isinstance(a, tuple) or isinstance(b, tuple):
            if a == () and b == ():
                return True
            raise Unsupported("`is` on tuples")
        return a is b
    s, o = (a, b) if is_sym(a) else (b, a)
    if isinstance(s, SVal):
        if o is None:
            return Val.is_VNone(s.z)
        if o is NotImplemented:
            return Val.is_VNotImpl(s.z)
        if o is Ellipsis:
            return Val.is_VEllipsis(s.z)
        if o is True:
            return z3.And(Val.is_VBool(s.z), Val.vb(s.z))
        if o is False:
            return z3.And(Val.is_VBool(s.z), z3.Not(Val.vb(s.z)))
        if isinstance(o, HeapRef):
            return z3.And(Val.is_VRef(s.z), Val.oid(s.z) == o.oid_term())
        if isinstance(o, SVal):
            # identity of two dynamic values: same heap object, or the same singleton
            single = lambda v: z3.Or(Val.is_VNone(v), Val.is_VNotImpl(v), Val.is_VEllipsis(v), Val.is_VBool(v))
            return z3.And(s.z == o.z, z3.Or(Val.is_VRef(s.z), single(s.z)))
        if isinstance(o, type) or callable(o):
            return z3.And(Val.is_VRef(s.z), Val.oid(s.z) == const_ref_oid(o))
        raise Unsupported("`is` between dynamic value and %r" % (o,))
    if isinstance(s, SBool):
        if o is True:
            return s.z
        if o is False:
            return z3.Not(s.z)
        if isinstance(o, SBool):
            return s.z == o.z
        return False
    if isinstance(s, SInt) and isinstance(o, (SInt, int)) and not isinstance(o, bool):
        raise Unsupported("`is` on ints")
    if o is None or o in (True, False, NotImplemented, Ellipsis) or isinstance(o, type):
        return False
    raise Unsupported("`is` on %r, %r" % (a, b))


CONTAINS_HOOK = None


def int_set_cond(x, ints):
    """x in (set of python ints) as a disjunction of ranges"""
    ints = sorted(set(ints))
    if not ints:
        return FALSE
    runs = []
    lo = prev = ints[0]
    for i in ints[1:]:
        if i == prev + 1:
            prev = i
            continue
        runs.append((lo, prev))
        lo = prev = i
    runs.append((lo, prev))
    return z3.Or([z3.And(x >= a, x <= b) if a != b else x == a for a, b in runs])


def contains(coll, x):
    """x in coll"""
    if not is_sym(coll) and not is_sym(x) and not isinstance(coll, HeapRef) and not isinstance(x, HeapRef):
        if isinstance(coll, (tuple, list)) and any(is_sym(c) or isinstance(c, HeapRef) for c in coll):
            return z3.Or([_z(eq(x, c)) for c in coll])
        try:
            return x in coll
        except TypeError:
            raise Unsupported("in on %r" % (coll,))
    if isinstance(coll, SVal):
        # membership in a dynamic collection: a pure uninterpreted predicate of (collection, element)
        return CONTAINS_HOOK(coll, x)
    if isinstance(coll, (dict, set, frozenset, tuple, list)):
        keys = list(coll)
        if isinstance(x, SInt):
            ints = [k for k in keys if type(k) is int or type(k) is bool]
            return int_set_cond(x.z, [int(k) for k in ints])
        if isinstance(x, SBytes):
            return seq_in_consts(x.z, [k for k in keys if type(k) is bytes])
        if isinstance(x, SStr):
            return seq_in_consts(x.z, [k for k in keys if type(k) is str])
        if isinstance(x, SVal):
            return z3.Or([_z(eq(x, k)) for k in keys] + [FALSE])
        if isinstance(x, SBool):
            return z3.Or([_z(eq(x, k)) for k in keys] + [FALSE])
        return z3.Or([_z(eq(x, k)) for k in keys] + [FALSE])
    raise Unsupported("in on %r" % (coll,))


def seq_in_consts(s, consts):
    """Seq term s equals one of the constant strings; one-element strings are range-compressed"""
    ones = [c for c in consts if len(c) == 1]
    rest = [c for c in consts if len(c) != 1]
    parts = []
    if ones:
        codes = [c[0] if isinstance(c, bytes) else ord(c) for c in ones]
        parts.append(z3.And(z3.Length(s) == 1, int_set_cond(s[0], codes)))
    for c in rest:
        parts.append(s == seq_lit(c))
    return z3.Or(parts) if parts else FALSE


TEXT_FMT = z3.Function("text_fmt", Val, Val, Bytes)
REAL_F64 = z3.Function("real_f64", z3.RealSort(), F64)       # a time value stored as a float object (floats-as-reals assumption)


def const_table_lookup(table, key):
    """table[key] for a constant dict and a symbolic key -> (value, errs).
    int->1-byte and 1-byte->int tables are compressed into affine runs (exact)."""
    items = list(table.items())
    inside = contains(table, key)
    errs = [(KeyError, z3.Not(_z(inside)))]
    if isinstance(key, SInt) and all(type(k) is int and type(v) is bytes and len(v) == 1 for k, v in items):
        return SBytes(z3.Unit(_affine(key.z, [(k, v[0]) for k, v in items]))), errs
    if isinstance(key, SBytes) and all(type(k) is bytes and len(k) == 1 and type(v) is int for k, v in items):
        return SInt(_affine(key.z[0], [(k[0], v) for k, v in items])), errs
    # generic ite chain; all values must be of one kind
    vals = [v for _, v in items]
    if vals and all(callable(v) for v in vals):
        return Choice([(_z(eq(key, k)), v) for k, v in items]), errs
    if vals and all(type(v) is str for v in vals):
        r = seq_lit(vals[-1])
        for k, v in reversed(items[:-1]):
            r = z3.If(_z(eq(key, k)), seq_lit(v), r)
        return SStr(r), errs
    raise Unsupported("symbolic lookup in constant table")


def _affine(x, pairs):
    """piecewise-affine (slope 1) representation of an int->int table"""
    pairs = sorted(pairs)
    runs = []
    for k, v in pairs:
        if runs and runs[-1][1] + 1 == k and runs[-1][2] == v - k:
            runs[-1][1] = k
        else:
            runs.append([k, k, v - k])
    out = z3.IntVal(-1)
    for lo, hi, off in reversed(runs):
        out = z3.If(z3.And(x >= lo, x <= hi), x + off, out)
    return out


class Choice(object):
    """a value that is one of several concrete alternatives, each under a condition
    (result of a lookup in a constant table with a symbolic key)"""

    def __init__(self, alts, default=None, has_default=False):
        self.alts = alts
        self.default = default
        self.has_default = has_default

    def __repr__(self):
        return "Choice(%d alts%s)" % (len(self.alts), ", default" if self.has_default else "")
