"""Library models: the trusted contracts of everything outside the repository that the
functions under contract touch (builtins, struct, zlib, BytesIO, list/dict methods, ...).
Each model is stated here once; the names of the models a run used are listed in its evidence.
"""
import ast
import io
import struct
import types
import z3

from .sorts import (SReal, Real, Sym, SInt, SBool, SBytes, SStr, SVal, SVL, SF64, Val, VL, Bytes, Int, Bool, F64,
                    seq_lit, fresh, typeof, type_id, TYPE_ID)
from . import ops
from .ops import Unsupported, truth, b2v, i2v, zint, zbool, zseq, to_val, to_vl, Choice, TRUE, FALSE, is_sym
from .specenv import SFset, SSlice, SComplex, SType, merge_values
from .engine import (EntryRef, Obj, ExcObj, Raised, BoundMethod, Closure, CheckerError, ops_SymRange, State, Ret, Brk, Cont, SArr,
                     AnyException, AnyBaseException,
                     _simp_false, _simp_true)


class SymMethod(object):
    """method of a symbolic (non-heap) value, e.g. text.encode"""

    def __init__(self, recv, name):
        self.recv = recv
        self.name = name


PURE_BUILTINS = (len, min, max, abs, int, str, bytes, bool, tuple, isinstance, issubclass, type, repr, hash,
                 frozenset, range, complex, float, sorted, list, dict, set, id, callable, ord, chr, sum, any, all)


class Lib(object):
    def __init__(self, spec):
        self.spec = spec
        self.model_classes = {"BytesIO": "BytesIO", "Lock": "Lock", "Condition": "Condition", "socket": "socket", "count": "count",
                              "File": "File",
                              "pipefile": "pipefile"}
        self.used = set()
        self.views = set()
        self.view_arrays = {}        # id of a dict-view term -> (kind, map array, has array)
        self.slice_cache_key = "__slices__"

    def P(self, engine, st, name, *args):
        """evaluate a fact-carrying spec primitive in code context: facts go to the path condition"""
        saved = self.spec.facts_sink
        self.spec.facts_sink = []
        try:
            from .specenv import Ctx
            v = self.spec.prims[name](Ctx(self.spec, engine, st, engine.pre_state, {}), *args)
            st.pc.extend(self.spec.facts_sink)
        finally:
            self.spec.facts_sink = saved
        return v

    def R(self, engine, st, name, *args):
        """apply a recursive spec function in code context (with unfolding facts)"""
        saved = self.spec.facts_sink
        self.spec.facts_sink = []
        try:
            from .specenv import Ctx
            v = self.spec.rec_app(Ctx(self.spec, engine, st, engine.pre_state, {}), self.spec.recs[name], list(args))
            st.pc.extend(self.spec.facts_sink)
        finally:
            self.spec.facts_sink = saved
        return v

    # -- globals ------------------------------------------------------------------------------
    def wrap_global(self, engine, mod, name, v):
        return v

    # -- attribute access -----------------------------------------------------------------------
    def obj_getattr(self, engine, st, o, name, node):
        if isinstance(o, ExcObj):
            if name == "args":
                yield st, tuple(o.args)
            elif name in o.info:
                yield st, o.info[name]
            else:
                raise Unsupported("attribute %s of exception object" % name)
            return
        if (o.oid, name) in st.heap or engine.field_sort(o, name):
            v = engine.heap_get(st, o, name)
            if v is DELETED:
                yield st.label("L%d:.%s deleted" % (engine.rel_line(node), name)), Raised(AttributeError, ExcObj(AttributeError))
                return
            yield st, v
            return
        if o.kind in ("joinlist", "list", "dict", "vlist"):
            yield st, BoundMethod(o, None, name)
            return
        cls = o.cls
        if isinstance(cls, str):
            yield st, BoundMethod(o, None, name)
            return
        import inspect
        try:
            raw = inspect.getattr_static(cls, name)
        except AttributeError:
            yield st, Raised(AttributeError, ExcObj(AttributeError))
            return
        if isinstance(raw, types.FunctionType):
            yield st, BoundMethod(o, raw, name)
        elif isinstance(raw, property):
            for r in engine.call(st, BoundMethod(o, raw.fget, name), [], {}, node):
                yield r
        elif isinstance(raw, (classmethod, staticmethod)):
            raise Unsupported("class/static method through instance")
        elif isinstance(raw, types.MemberDescriptorType):
            # a __slots__ entry without a declared field sort
            raise CheckerError("field %s.%s is not declared in the contract store" % (o.clsname(), name))
        else:
            yield st, raw

    def sym_getattr(self, engine, st, o, name, node):
        if isinstance(o, SVal) and name in ("start", "stop", "step"):
            # only slices among the plain values have these attributes
            z = o.z
            bad = st.fork().assume(z3.Not(Val.is_VSlice(z))).label("L%d:no .%s" % (engine.rel_line(node), name))
            if engine.feasible(bad):
                for r in self.dynamic_attr_missing(engine, bad, o, name, node):
                    yield r
            st.assume(Val.is_VSlice(z))
            yield st, SVal({"start": Val.sstart, "stop": Val.sstop, "step": Val.sstep}[name](z))
            return
        if isinstance(o, (SVal, SType)) and name in ("__name__", "__module__", "__class__"):
            self.used.add("reading __name__/__module__/__class__ of an object is a pure lookup (no user code runs); "
                          "the __name__ of a module object is text")
            r = self.spec.uf["meta_attr"](to_val(o), seq_lit(name))
            if name == "__name__":
                st.assume(z3.Implies(self.spec.uf["is_module"](to_val(o)),
                                     z3.And(Val.is_VStr(r), z3.Length(self.P(engine, st, "utf8", SStr(Val.vs(r))).z) < 2 ** 32)))
            yield st, SVal(r)
            return
        if isinstance(o, SVal) and name in ("sync_request", "async_request"):
            yield st, RequestMethod(o, name)
            return
        if isinstance(o, SVal) and name == "____refcount__":
            arr = st.heap[("$netref", "refcount")] if ("$netref", "refcount") in st.heap else engine.netref_refcounts0()
            yield st, SInt(z3.Select(arr.z, o.z))
            return
        if isinstance(o, SVal) and name in ("____conn__", "____id_pack__"):
            # slots of a proxy object, read through object.__getattribute__ (LOCAL_ATTRS): no request, no user code.
            # Only proxies have them: the value must provably be a proxy here.
            from .specenv import Ctx
            isn = ops._z(truth(self.P(engine, st, "is_netref", o)))
            isn = z3.Or(isn, self.spec.uf["has_attr"](o.z, seq_lit(name)))
            engine.oblige(st, "netref-slot:%s on a proxy@L%d[%s]" % (name, engine.rel_line(node), engine.path_label(st)),
                          isn, props=engine.all_props(engine.cur[1]), kind="pre",
                          note="the proxy slots exist on proxies only")
            st.assume(isn)
            yield st, self.P(engine, st, "netref_conn" if name == "____conn__" else "netref_idpack", o)
            return
        if isinstance(o, SVal) and engine.cur[0].dynamic_errors and name in ("lower", "upper", "split", "count", "startswith"):
            yield st, self.sym_method(engine, o, name, node)       # a text method: decided when it is called (call_symmethod)
            return
        if isinstance(o, SVal) and name not in ("decode", "encode", "startswith"):
            for r in self.dyn_attr_event(engine, st, "GetAttr", o, name, node):
                yield r
            return
        yield st, self.sym_method(engine, o, name, node)

    def op_event(self, engine, st, opname, target, rest, node):
        """an operator / builtin applied to a dynamic heap object: one ghost Op event, any result, any exception"""
        self.used.add("%s on a dynamic object = one ghost Op event, any result, any exception" % opname)
        ln = engine.rel_line(node)
        restv = SVL(to_vl(rest))
        for cls in [AnyException, AnyBaseException] + list(engine.exc_universe()):
            b = st.fork().label("L%d:%s raises %s" % (ln, opname, cls.__name__))
            b.trace.append(("Op", opname, target.z, restv.z, "raise"))
            yield b, Raised(cls, ExcObj(cls, info={"dynamic": True}))
        res = SVal(fresh("%s.result@L%d" % (opname, ln), Val))
        engine.type_invariants(st, [res])
        st.trace.append(("Op", opname, target.z, restv.z, res.z))
        yield st, res

    def dyn_attr_event(self, engine, st, kind, o, name, node, value=None):
        """direct attribute access on a dynamic value: a ghost event (it may run arbitrary descriptor code)"""
        self.used.add("%s on a dynamic object = one ghost event, any result, any exception" % kind)
        ln = engine.rel_line(node)
        nm = to_val(name)
        for cls in [AnyException, AnyBaseException, AttributeError] + [c for c in engine.exc_universe() if c is not AttributeError]:
            b = st.fork().label("L%d:%s raises %s" % (ln, kind, cls.__name__))
            b.trace.append((kind, to_val(o), nm, "raise", value))
            yield b, Raised(cls, ExcObj(cls, info={"dynamic": True}))
        res = SVal(fresh("%s.result@L%d" % (kind, ln), Val)) if kind == "GetAttr" else None
        if res is not None:
            engine.type_invariants(st, [res])
            ga = engine.cur[0].getattr_assume.get(name) if isinstance(name, str) else None
            if ga:
                clause, why = ga
                self.used.add("ASSUMED about reading .%s: %s (%s)" % (name, clause, why))
                z, facts = engine.spec_bool(st, st, clause, {"obj": o, "result": res})
                st.pc.extend(facts)
                st.assume(z)
        st.trace.append((kind, to_val(o), nm, res.z if res is not None else None, value))
        yield st, res

    def sym_method(self, engine, o, name, node):
        if isinstance(o, SComplex) and name in ("real", "imag"):
            return SF64((Val.vre if name == "real" else Val.vim)(o.z))
        if isinstance(o, SSlice) and name in ("start", "stop", "step"):
            acc = {"start": Val.sstart, "stop": Val.sstop, "step": Val.sstep}[name]
            return SVal(acc(o.z))
        return SymMethod(o, name)

    # -- calls ----------------------------------------------------------------------------------
    def call_method(self, engine, st, recv, name, func, args, kwargs, node):
        ln = engine.rel_line(node)
        # struct.Struct
        if isinstance(recv, struct.Struct):
            for r in self.struct_call(engine, st, recv, name, args, node):
                yield r
            return
        if isinstance(recv, Obj) and recv.kind == "joinlist":
            if name == "append" and len(args) == 1:
                self.used.add("list.append (join abstraction)")
                x = args[0]
                if not (ops.is_byteslike(x)):
                    raise Unsupported("append of non-bytes %r to a list[bytes]" % (x,))
                j = engine.heap_get(st, recv, "joined")
                n = engine.heap_get(st, recv, "n")
                st.heap[(recv.oid, "joined")] = SBytes(z3.Concat(zseq(j), zseq(x)))
                st.heap[(recv.oid, "n")] = i2v(zint(n) + 1)
                yield st, None
                return
            raise Unsupported("list method %s on list[bytes]" % name)
        if isinstance(recv, str) and name == "format":
            self.used.add("str.format: an opaque text; its UTF-8 form is shorter than 4 GiB")
            r = SStr(fresh("formatted", Bytes))
            st.assume(z3.Length(self.P(engine, st, "utf8", r).z) < 2 ** 32)
            yield st, r
            return
        if isinstance(recv, (bytes, str)) and name == "join" and len(args) == 1:
            a = args[0]
            if isinstance(a, Obj) and a.kind == "joinlist" and recv in (b"", ""):
                self.used.add("bytes.join == concatenation")
                yield st, engine.heap_get(st, a, "joined")
                return
            raise Unsupported("join of %r" % (a,))
        if isinstance(recv, Obj) and recv.cls == "BytesIO":
            for r in self.bytesio_call(engine, st, recv, name, args, node):
                yield r
            return
        if isinstance(recv, Obj) and recv.kind == "dict":
            for r in self.dict_call(engine, st, recv, name, args, kwargs, node):
                yield r
            return
        if isinstance(recv, Obj) and recv.kind == "vlist":
            self.used.add("list.%s (cons-list model: append = app(l, [x]), pop(0) = head/tail)" % name)
            items = engine.heap_get(st, recv, "items")
            if name == "append" and len(args) == 1:
                new = self.vl_append(engine, st, items, SVL(VL.cons(to_val(args[0]), VL.nil)))
                st.heap[(recv.oid, "items")] = SVL(new.z)
                if engine.cur[0].append_hints:
                    engine.use_hints(st, engine.cur[0].append_hints, {"acc": items, "x": SVal(to_val(args[0]))})
                yield st, None
                return
            if name == "pop" and len(args) == 1 and args[0] == 0:
                bad = st.fork().assume(items.z == VL.nil).label("L%d:pop from empty" % ln)
                if engine.feasible(bad):
                    yield bad, Raised(IndexError, ExcObj(IndexError))
                st.assume(VL.is_cons(items.z))
                st.heap[(recv.oid, "items")] = SVL(VL.tl(items.z))
                yield st, SVal(VL.hd(items.z))
                return
            if name == "pop" and not args:
                bad = st.fork().assume(items.z == VL.nil).label("L%d:pop from empty" % ln)
                if engine.feasible(bad):
                    yield bad, Raised(IndexError, ExcObj(IndexError))
                st.assume(VL.is_cons(items.z))
                r, h = SVL(fresh("init", VL)), SVal(fresh("last", Val))      # items == r ++ [h]
                st.assume(items.z == self.R(engine, st, "app", r, SVL(VL.cons(h.z, VL.nil))).z)
                st.heap[(recv.oid, "items")] = r
                yield st, h
                return
            raise Unsupported("list method %s (line %d)" % (name, node.lineno))
        if isinstance(recv, Obj) and isinstance(recv.cls, str):
            ext = engine.store.externals.get("%s.%s" % (recv.cls, name))
            if ext is None:
                raise CheckerError("no library model for %s.%s (line %d)" % (recv.cls, name, node.lineno))
            for r in self.apply_external(engine, st, ext, [recv] + list(args), kwargs, node):
                yield r
            return
        if isinstance(recv, dict) and name == "get":
            key = args[0]
            default = args[1] if len(args) > 1 else None
            if not is_sym(key):
                yield st, recv.get(key, default)
                return
            alts = [(ops._z(ops.eq(key, k)), v) for k, v in recv.items()]
            yield st, Choice(alts, default, True)
            return
        if isinstance(recv, dict) and name in ("items", "keys", "values") and not args:
            yield st, list(getattr(recv, name)())
            return
        # concrete receiver, concrete args: run it (pure library objects only)
        if not isinstance(recv, Obj) and not is_sym(recv) and all(not is_sym(a) and not isinstance(a, Obj) for a in args) \
                and isinstance(recv, (bytes, str, int, tuple, frozenset, dict, struct.Struct)):
            try:
                res_ = getattr(recv, name)(*args, **kwargs)
                if isinstance(res_, (dict, list, set)) and res_ is not recv:
                    engine.created_ids.add(id(res_))            # a new container made by this call (d.copy(), list(...))
                    engine._keepalive.append(res_)
                yield st, res_
            except Exception as e:
                yield st, Raised(type(e), ExcObj(type(e)))
            return
        raise Unsupported("method %s of %r (line %d)" % (name, recv, node.lineno))

    def vl_append(self, engine, st, a, b):
        """a ++ b on cons-lists: computed directly when the spine of `a` is explicit, else the spec function app"""
        elems, cur = [], z3.simplify(a.z)
        while z3.is_app(cur) and cur.decl().name() == "cons":
            elems.append(cur.arg(0))
            cur = cur.arg(1)
        if z3.is_app(cur) and cur.decl().name() == "nil":
            out = b.z
            for x in reversed(elems):
                out = VL.cons(x, out)
            return SVL(out)
        return self.R(engine, st, "app", a, b)

    def lift_dict(self, engine, st, d, name):
        """a concrete dict used where a heap dict is expected: a FRESH heap dict with those contents"""
        # ... unless it is a PRE-EXISTING object (a module-level or class-level dict the code merely refers to): then the heap
        # dict is that shared object - not new, and every function that names it sees the same one
        shared = id(d) not in engine.created_ids
        if shared:
            key = ("$shared", id(d))
            if not hasattr(engine, "_shared_objs"):
                engine._shared_objs = {}
            if key in engine._shared_objs:
                return engine._shared_objs[key]
        o = Obj(dict, "%s(%s)" % (name, "shared" if shared else "lifted"), "dict", allocated=not shared)
        if shared:
            engine._shared_objs[key] = o
        m = z3.K(Val, Val.VNone)
        h = z3.K(Val, z3.BoolVal(False))
        for k, v in d.items():
            m = z3.Store(m, to_val(k), to_val(v))
            h = z3.Store(h, to_val(k), True)
        st.heap[(o.oid, "map")] = SArr(m)
        st.heap[(o.oid, "has")] = SArr(h)
        return o

    # -- dict objects: contents are two arrays (map, has) over Val keys ---------------------------------
    def dget(self, engine, st, d):
        return engine.heap_get(st, d, "map").z, engine.heap_get(st, d, "has").z

    def dict_call(self, engine, st, d, name, args, kwargs, node):
        self.used.add("dict.%s (array model)" % name)
        m, h = self.dget(engine, st, d)
        if name == "get" and 1 <= len(args) <= 2:
            k = to_val(args[0])
            default = args[1] if len(args) > 1 else None
            if getattr(d, "valkind", None) == "slot":
                a = st.fork().assume(z3.Select(h, k)).label("L%d:get hit" % engine.rel_line(node))
                if engine.feasible(a):
                    yield a, EntryRef(d, k)
                b = st.fork().assume(z3.Not(z3.Select(h, k))).label("L%d:get miss" % engine.rel_line(node))
                if engine.feasible(b):
                    yield b, default
                return
            yield st, merge_values(z3.Select(h, k), SVal(z3.Select(m, k)), default)
            return
        if name == "pop" and 1 <= len(args) <= 2:
            k = to_val(args[0])
            present = z3.Select(h, k)
            if len(args) == 1:
                bad = st.fork().assume(z3.Not(present)).label("L%d:pop KeyError" % engine.rel_line(node))
                if engine.feasible(bad):
                    yield bad, Raised(KeyError, ExcObj(KeyError))
                st.assume(present)
                res = SVal(z3.Select(m, k))
            else:
                res = merge_values(present, SVal(z3.Select(m, k)), args[1])
            engine.dict_put(st, d, h=z3.Store(h, k, False))
            yield st, res
            return
        if name == "setdefault" and 1 <= len(args) <= 2:
            # d.setdefault(k, v): the entry under k if there is one, else v is stored under k and is the result -
            # composed from the models of d[k] and d[k] = v (so every kind of table behaves as with those)
            k = to_val(args[0])
            ln = engine.rel_line(node)
            hit = st.fork().assume(z3.Select(h, k)).label("L%d:setdefault hit" % ln)
            if engine.feasible(hit):
                for r in self.getitem(engine, hit, d, args[0], node):
                    yield r
            miss = st.fork().assume(z3.Not(z3.Select(h, k))).label("L%d:setdefault miss" % ln)
            if engine.feasible(miss):
                for s1, o in self.setitem(engine, miss, d, args[0], args[1] if len(args) > 1 else None, node):
                    if isinstance(o, Raised):
                        yield s1, o
                        continue
                    for r in self.getitem(engine, s1, d, args[0], node):
                        yield r
            return
        if name in ("add", "discard") and len(args) == 1:
            # a set of objects modelled as a dict without values: membership only
            engine.dict_put(st, d, h=z3.Store(h, to_val(args[0]), name == "add"))
            yield st, None
            return
        if name == "clear" and not args:
            engine.dict_put(st, d, h=z3.K(Val, z3.BoolVal(False)))
            yield st, None
            return
        if name == "copy" and not args:
            o = Obj(dict, "%s.copy@L%d" % (d.name, engine.rel_line(node)), "dict", allocated=True)
            st.heap[(o.oid, "map")] = SArr(m)
            st.heap[(o.oid, "has")] = SArr(h)
            yield st, o
            return
        if name == "update" and len(args) == 1 and isinstance(args[0], Obj) and args[0].kind == "dict":
            m2, h2 = self.dget(engine, st, args[0])
            nm = fresh("map~update", z3.ArraySort(Val, Val))
            nh = fresh("has~update", z3.ArraySort(Val, Bool))
            k = z3.Const("k!upd", Val)
            # pointwise definition of the updated dict (quantified; instantiated by the solver's array theory)
            st.assume(z3.ForAll([k], z3.Select(nh, k) == z3.Or(z3.Select(h, k), z3.Select(h2, k))))
            st.assume(z3.ForAll([k], z3.Select(nm, k) == z3.If(z3.Select(h2, k), z3.Select(m2, k), z3.Select(m, k))))
            engine.dict_put(st, d, m=nm, h=nh)
            yield st, None
            return
        if name in ("keys", "values", "items") and not args:
            # a view: an uninterpreted function of the dict's contents
            v = self.spec.uf["dict_view"](z3.IntVal(("keys", "values", "items").index(name)), engine.heap_get(st, d, "map").z,
                                          engine.heap_get(st, d, "has").z)
            self.views.add(v.get_id())
            self.view_arrays[v.get_id()] = (name, engine.heap_get(st, d, "map").z, engine.heap_get(st, d, "has").z)
            yield st, SVal(v)
            return
        raise Unsupported("dict.%s (line %d)" % (name, node.lineno))

    def apply_external(self, engine, st, ext, args, kwargs, node, skip_at=None):
        """a library model given as outcomes: fork one path per outcome"""
        self.used.add("%s (%s)" % (ext.name, ext.note or "library model"))
        ln = engine.rel_line(node)
        names = list(ext.params)
        if len(args) > len(names):
            yield st, Raised(TypeError, ExcObj(TypeError))
            return
        env = {}
        for n, a in zip(names, args):
            env[n] = engine.coerce(st, a, ext.params[n], "%s.%s" % (ext.name, n), node)
        for n in names[len(args):]:
            if n in kwargs:
                env[n] = kwargs[n]
            elif n in ext.defaults:
                env[n] = ext.defaults[n]
            else:
                yield st, Raised(TypeError, ExcObj(TypeError))
                return
        pre = st.fork()
        pre.env = dict(env)
        pre.ghost = {}
        for i, r in enumerate(ext.requires):
            z, facts = self.spec.evaluate_bool(engine, r, st, pre, env)
            engine.oblige(st, "pre:%s.%d@L%d[%s]" % (ext.name, i, ln, engine.path_label(st)), z,
                          props=engine.all_props(engine.cur[1]), kind="pre", extra_hyps=facts,
                          note="precondition of the library model: " + r)
            st.pc.extend(facts)
            st.assume(z)
        outcomes_all = ext.outcomes
        if skip_at is not None:
            # the outcomes that belong to an earlier step of the same operation (the table lookup) already happened
            import copy as _copy
            ext = _copy.copy(ext)
            ext.outcomes = [oc for oc in outcomes_all if oc.get("at") != skip_at]
        guards = []
        for oc in ext.outcomes:
            gz = []
            for a in oc.get("when", []):
                try:
                    z, _ = self.spec.evaluate_bool(engine, a, pre, pre, dict(env, exc=ExcObj(Exception, (), {k: engine.fresh_of(srt, k) for k, srt in oc.get("info", {}).items()})))
                    gz.append(z)
                except Exception:
                    gz = []
                    break
            guards.append(z3.And(gz) if gz else z3.BoolVal(True))
        # vacuity guard: the outcomes' guards must not exclude every outcome
        probe = st.fork()
        probe.assume(z3.Or(guards))
        engine.canary(probe, "L%d:%s some outcome applies" % (ln, ext.name), list(st.pc))
        expanded = []
        for oc in ext.outcomes:
            if oc.get("raise") == "*":
                for cls in [AnyException, AnyBaseException] + list(engine.exc_universe()):
                    expanded.append(dict(oc, **{"raise_cls": cls, "label": "%s %s" % (oc.get("label", "raises"), cls.__name__)}))
            else:
                expanded.append(oc)
        for oc in expanded:
            b = st.fork().label("L%d:%s %s" % (ln, ext.name, oc.get("label", "ok")))
            engine.havoc_modifies(b, env, oc.get("modifies", []), "%s@L%d" % (ext.name, ln))
            for fld, val in oc.get("sets", {}).items():
                tgt, fname = fld.rsplit(".", 1)
                v, facts = self.spec.evaluate(engine, val, b, pre, env)
                o, _ = self.spec.evaluate(engine, tgt, b, pre, env)
                b.heap[(o.oid, fname)] = v
            scope = dict(env)
            result = None
            if oc.get("raise"):
                ecls = oc.get("raise_cls") or self.spec.exc_class(oc["raise"], None)
                info = {k: engine.fresh_of(srt, "%s.%s@L%d" % (ecls.__name__, k, ln)) for k, srt in oc.get("info", {}).items()}
                exc = ExcObj(ecls, (), info)
                scope["exc"] = exc
            else:
                rs = oc.get("result", ext.result)
                if rs and rs != "none":
                    result = engine.fresh_of(rs, "%s.result@L%d" % (ext.name, ln))
                    engine.type_invariants(b, [result])
                    if isinstance(result, Obj) and oc.get("result_name"):
                        result.name = oc["result_name"]
                scope["result"] = result
            for a in oc.get("when", []):        # applicability of the outcome: a guard on the state BEFORE the call
                z, facts = self.spec.evaluate_bool(engine, a, pre, pre, scope)
                b.pc.extend(facts)
                b.assume(z)
            before = list(b.pc)
            for a in oc.get("assume", []):
                z, facts = self.spec.evaluate_bool(engine, a, b, pre, scope)
                b.pc.extend(facts)
                b.assume(z)
            if oc.get("assume"):
                engine.canary(b, "L%d:%s %s" % (ln, ext.name, oc.get("label", "ok")), before)
            for ev in oc.get("events", []):
                b.trace.append(tuple([ev[0]] + [self.spec.evaluate(engine, x, b, pre, scope)[0] for x in ev[1:]]))
            if not engine.feasible(b):
                continue
            if oc.get("raise"):
                yield b, Raised(ecls, exc, info)
            else:
                if oc.get("wrap") == "fd":
                    result = FdVal(result.z, env[names[0]])
                yield b, result

    def call_symmethod(self, engine, st, m, args, kwargs, node):
        o, name = m.recv, m.name
        if isinstance(o, SVal) and name in ("startswith", "split", "lower", "upper", "count") and engine.cur[0].dynamic_errors:
            # a text method on a dynamically typed PLAIN value: text -> the method; anything else has no such method
            # (bytes do have lower/upper/split/count/startswith: modelled as an uninterpreted bytes result)
            z = o.z
            ln = engine.rel_line(node)
            self.R(engine, st, "plain", o)          # the definition of `plain` at the receiver (a plain value is not a heap object)
            nb = st.fork().assume(z3.And(z3.Not(Val.is_VStr(z)), z3.Not(Val.is_VBytes(z)), z3.Not(Val.is_VRef(z)))).label("L%d:no .%s" % (ln, name))
            if engine.feasible(nb):
                yield nb, Raised(AttributeError, ExcObj(AttributeError))
            by = st.fork().assume(Val.is_VBytes(z)).label("L%d:bytes.%s" % (ln, name))
            if engine.feasible(by) and name in ("split", "count", "startswith") and args and all(isinstance(a, (str, SStr)) for a in args):
                yield by, Raised(TypeError, ExcObj(TypeError))       # bytes.split('.') etc.: a bytes-like object is required
            elif engine.feasible(by):
                yield by, (SBytes(ops.TEXT_FMT(Val.VStr(seq_lit("bytes." + name)), Val.VTuple(to_vl([o] + list(args)))))
                           if name in ("lower", "upper") else
                           SVal(self.spec.uf["text_format"](Val.VStr(seq_lit("bytes." + name)), to_vl([o] + list(args)))))
            rf = st.fork().assume(Val.is_VRef(z))
            if engine.feasible(rf):
                for r in self.op_event(engine, rf, "method:" + name, o, list(args), node):
                    yield r
            st.assume(Val.is_VStr(z))
            o = SStr(Val.vs(z))
        elif isinstance(o, SVal) and name in ("startswith", "split", "lower", "count"):
            # a text method on a dynamically typed value: the value must provably be text here
            o = engine.narrow(st, o, "str", node, "receiver of .%s()" % name)
        if isinstance(o, SStr) and name == "encode" and args and args[0] in ("utf8", "utf-8") and not kwargs:
            errors = args[1] if len(args) > 1 else "strict"
            self.used.add("str.encode('utf8', %r): T-UTF8" % errors)
            if errors == "strict":
                ok = ops._z(truth(self.P(engine, st, "utf8_ok", o)))
                bad = st.fork().assume(z3.Not(ok)).label("L%d:encode raises" % engine.rel_line(node))
                yield bad, Raised(UnicodeEncodeError, ExcObj(UnicodeEncodeError))
                st.assume(ok)
                yield st, self.P(engine, st, "utf8", o)
                return
            if errors == "surrogatepass":
                yield st, self.P(engine, st, "utf8", o)
                return
        if isinstance(o, SBytes) and name == "decode" and args and args[0] in ("utf8", "utf-8") and not kwargs:
            errors = args[1] if len(args) > 1 else "strict"
            self.used.add("bytes.decode('utf-8', %r): T-UTF8" % errors)
            if errors in ("strict", "surrogatepass"):
                valid = ops._z(truth(self.P(engine, st, "utf8_strict_valid" if errors == "strict" else "utf8_valid", o)))
                bad = st.fork().assume(z3.Not(valid)).label("L%d:decode raises" % engine.rel_line(node))
                yield bad, Raised(UnicodeDecodeError, ExcObj(UnicodeDecodeError))
                st.assume(valid)
                txt = self.P(engine, st, "unutf8", o)
                st.assume(self.P(engine, st, "utf8", txt).z == o.z)       # decoding is the inverse of encoding on valid input
                yield st, txt
                return
        if isinstance(o, SStr) and name in ("lstrip", "rstrip", "strip", "lower", "upper", "title", "capitalize", "swapcase") and \
                len(args) <= 1 and not kwargs and all(isinstance(a, (str, SStr)) for a in args):
            # a pure text -> text method: an uninterpreted function of the receiver (and the argument)
            self.used.add("str.%s: an uninterpreted pure function text -> text" % name)
            fmt = Val.VStr(seq_lit("." + name))
            yield st, SStr(ops.TEXT_FMT(fmt, Val.VTuple(to_vl([o] + list(args)))))
            return
        if isinstance(o, SBytes) and name in ("rstrip", "lstrip", "strip") and len(args) == 1 and isinstance(args[0], bytes) \
                and len(args[0]) == 1 and not kwargs:
            # bytes.rstrip(b"c") / lstrip / strip with ONE byte to strip, exactly: the result is the receiver without its longest
            # run of that byte at the end (beginning / both)
            self.used.add("bytes.%s(one byte): the receiver without its maximal run of that byte at that end (exact)" % name)
            c = z3.IntVal(args[0][0])
            ln = engine.rel_line(node)
            cur = o.z
            for side in (("l",) if name == "lstrip" else ("r",) if name == "rstrip" else ("l", "r")):
                k = fresh("%s.%s@L%d" % (name, side, ln), Int)
                n = z3.Length(cur)
                i = z3.Const("q!strip", Int)
                st.assume(z3.And(k >= 0, k <= n))
                if side == "r":
                    # kept: cur[:k]; everything from k on is the byte; the byte before k is not
                    st.assume(z3.ForAll([i], z3.Implies(z3.And(i >= k, i < n), cur[i] == c)))
                    st.assume(z3.Or(k == 0, cur[k - 1] != c))
                    st.assume(z3.Implies(k < n, cur[n - 1] == c))
                    cur = z3.SubSeq(cur, 0, k)
                else:
                    st.assume(z3.ForAll([i], z3.Implies(z3.And(i >= 0, i < k), cur[i] == c)))
                    st.assume(z3.Or(k == n, cur[k] != c))
                    st.assume(z3.Implies(k > 0, cur[0] == c))
                    cur = z3.SubSeq(cur, k, n - k)
            yield st, SBytes(cur)
            return
        if isinstance(o, SStr) and name == "split" and len(args) == 1 and isinstance(args[0], (str, SStr)) and not kwargs:
            # text.split(sep): a non-empty list of texts (modelled as a tuple), an uninterpreted function of text and separator
            self.used.add("str.split(sep): a non-empty list of texts, an uninterpreted function of the text and the separator")
            res = self.spec.uf["seq_of"](z3.IntVal(4), Val.VTuple(to_vl([o, args[0]])))
            st.assume(z3.And(Val.is_VTuple(res), VL.is_cons(Val.titems(res)), Val.is_VStr(VL.hd(Val.titems(res)))))
            yield st, SVal(res)
            return
        if isinstance(o, (SStr, SBytes)) and name == "startswith" and len(args) == 1:
            a = engine.narrow(st, args[0], "str" if isinstance(o, SStr) else "bytes", node, "startswith argument")
            yield st, b2v(z3.PrefixOf(zseq(a), o.z))
            return
        if isinstance(o, SVal) and name == "decode":
            # method lookup on a dynamic value: only bytes has .decode among the plain types
            v = o.z
            isb = Val.is_VBytes(v)
            bad = st.fork().assume(z3.Not(isb)).label("L%d:no decode" % engine.rel_line(node))
            for r in self.dynamic_attr_missing(engine, bad, o, name, node):
                yield r
            st.assume(isb)
            for r in self.call_symmethod(engine, st, SymMethod(SBytes(Val.vby(v)), "decode"), args, kwargs, node):
                yield r
            return
        raise Unsupported("method %s of symbolic %r (line %d)" % (name, o, node.lineno))

    def dynamic_attr_missing(self, engine, st, o, name, node):
        """attribute `name` looked up on a dynamic value that is not of the type providing it:
        plain values raise AttributeError; a heap object (VRef) is outside the subset here."""
        isref = Val.is_VRef(o.z)
        ref = st.fork().assume(isref)
        engine.oblige(ref, "no-dynamic-attr:%s@L%d[%s]" % (name, engine.rel_line(node), engine.path_label(ref)),
                      FALSE, props=engine.all_props(engine.cur[1]), kind="pre",
                      note="attribute access on an arbitrary heap object is not modelled; the value must be plain here")
        st.assume(z3.Not(isref))
        yield st, Raised(AttributeError, ExcObj(AttributeError))

    def struct_call(self, engine, st, S, name, args, node):
        fmt = S.format if isinstance(S.format, str) else S.format.decode()
        self.used.add("struct.Struct(%r): T-STRUCT" % fmt)
        ln = engine.rel_line(node)
        if all(not is_sym(a) for a in args):
            try:
                yield st, getattr(S, name)(*args)
            except Exception as e:
                yield st, Raised(type(e), ExcObj(type(e)))
            return
        if fmt[0] not in "!>":
            raise Unsupported("struct format %r" % fmt)
        codes = fmt[1:]
        sizes = {"B": 1, "L": 4, "d": 8}
        if any(c not in sizes for c in codes):
            raise Unsupported("struct format %r" % fmt)
        if name == "pack":
            if len(args) != len(codes):
                yield st, Raised(struct.error, ExcObj(struct.error))
                return
            parts = []
            bad = []
            for c, a in zip(codes, args):
                if c == "B":
                    if not ops.is_intlike(a):
                        raise Unsupported("pack B of %r" % (a,))
                    bad.append(z3.Or(zint(a) < 0, zint(a) > 255))
                    parts.append(z3.Unit(zint(a)))
                elif c == "L":
                    if not ops.is_intlike(a):
                        raise Unsupported("pack L of %r" % (a,))
                    bad.append(z3.Or(zint(a) < 0, zint(a) >= 2 ** 32))
                    parts.append(self.P(engine, st, "be32", a).z)
                elif c == "d":
                    if not isinstance(a, SF64):
                        raise Unsupported("pack d of %r" % (a,))
                    parts.append(self.P(engine, st, "f64bytes", a).z)
            res = SBytes(parts[0] if len(parts) == 1 else z3.Concat(*parts))
            for r in engine.with_errs(st, (res, [(struct.error, z3.Or(bad))] if bad else []), node):
                yield r
            return
        if name == "unpack":
            data = args[0]
            if isinstance(data, SVal):
                raise Unsupported("unpack of dynamic value")
            total = sum(sizes[c] for c in codes)
            z = zseq(data)
            bad = st.fork().assume(z3.Length(z) != total).label("L%d:unpack raises" % ln)
            if engine.feasible(bad):
                yield bad, Raised(struct.error, ExcObj(struct.error))
            st.assume(z3.Length(z) == total)
            pieces = []
            if len(codes) == 1:
                pieces = [z]
            else:
                rest = z
                for i, c in enumerate(codes[:-1]):
                    a = fresh("unp", Bytes)
                    b = fresh("unp", Bytes)
                    st.assume(rest == z3.Concat(a, b))
                    st.assume(z3.Length(a) == sizes[c])
                    pieces.append(a)
                    rest = b
                pieces.append(rest)
            out = []
            for c, p in zip(codes, pieces):
                if c == "B":
                    x = fresh("byte", Int)
                    st.assume(p == z3.Unit(x))
                    st.assume(z3.And(x >= 0, x <= 255))
                    out.append(SInt(x))
                elif c == "L":
                    out.append(self.P(engine, st, "unbe32", SBytes(p)))
                elif c == "d":
                    out.append(self.P(engine, st, "unf64", SBytes(p)))
            yield st, tuple(out)
            return
        raise Unsupported("struct method %s" % name)

    def bytesio_call(self, engine, st, recv, name, args, node):
        if name == "read" and len(args) == 1:
            self.used.add("BytesIO.read(k) returns the next min(k, remaining) bytes")
            k = args[0]
            unread = engine.heap_get(st, recv, "unread")
            a = fresh("rd", Bytes)
            b = fresh("rd", Bytes)
            st.assume(zseq(unread) == z3.Concat(a, b))
            if isinstance(k, SVal):
                raise Unsupported("read(dynamic)")
            kk = zint(k)
            n = z3.Length(zseq(unread))
            st.assume(z3.Length(a) == z3.If(kk < 0, n, z3.If(kk <= n, kk, n)))
            st.heap[(recv.oid, "unread")] = SBytes(b)
            yield st, SBytes(a)
            return
        raise Unsupported("BytesIO.%s" % name)

    def call_builtin(self, engine, st, f, args, kwargs, node):
        ln = engine.rel_line(node)
        if isinstance(f, SymMethod):
            for r in self.call_symmethod(engine, st, f, args, kwargs, node):
                yield r
            return
        if f is _SNOC:
            yield st, self.call_snoc(engine, st, args[0], args[1])
            return
        if isinstance(f, RequestMethod):
            for r in self.request_event(engine, st, f, SVL(to_vl(args)), kwargs, node):
                yield r
            return
        if f is object.__getattribute__ and len(args) == 2 and isinstance(args[0], SVal) and \
                args[1] in ("____conn__", "____id_pack__", "____refcount__", "__class__"):
            for r in self.sym_getattr(engine, st, args[0], args[1], node):
                yield r
            return
        if f in (object.__getattribute__, object.__setattr__, object.__delattr__) and args and isinstance(args[0], (Obj, SVal)):
            # the proxy's OWN attribute machinery (LOCAL_ATTRS): a local slot access, no request, no user code
            self.used.add("object.__getattribute__/__setattr__/__delattr__ on a proxy: a local slot access (ghost event Local)")
            kind = {object.__getattribute__: "LocalGet", object.__setattr__: "LocalSet", object.__delattr__: "LocalDel"}[f]
            if len(args) >= 2 and args[1] == "__class__" and f is object.__getattribute__:
                yield st, SVal(self.spec.uf["meta_attr"](to_val(args[0]), seq_lit("__class__")))
                return
            bad = st.fork().label("L%d:%s raises AttributeError" % (ln, kind))
            bad.trace.append((kind, to_val(args[0]), to_val(args[1]), "raise"))
            yield bad, Raised(AttributeError, ExcObj(AttributeError))
            res = SVal(fresh("local_attr@L%d" % ln, Val)) if f is object.__getattribute__ else None
            if res is not None:
                engine.type_invariants(st, [res])
            st.trace.append((kind, to_val(args[0]), to_val(args[1]), res.z if res is not None else None))
            yield st, res
            return
        if f is sorted and len(args) == 1 and isinstance(args[0], SVal) and set(kwargs) == {"key"} and isinstance(kwargs["key"], Closure) and \
                args[0].z.get_id() in self.view_arrays and self.view_arrays[args[0].z.get_id()][0] == "items" and "member" in self.spec.recs:
            # sorted(d.items(), key=<lambda>): a list (modelled as a tuple) that is the uninterpreted function sorted_by of the view
            # and of the key function's source text; every element of it is an entry (k, d[k]) of the dict
            import ast as _ast
            keysrc = _ast.unparse(kwargs["key"].node.body) if hasattr(kwargs["key"].node, "body") else "?"
            self.used.add("sorted(d.items(), key=lambda ...): an uninterpreted function of the items view and the key's source text; "
                          "every element is an entry (k, d[k]) - that it is ORDERED by the key is the library's contract, not used")
            _, m, h = self.view_arrays[args[0].z.get_id()]
            T = self.spec.uf["sorted_by"](args[0].z, Val.VStr(seq_lit(keysrc)))
            st.assume(Val.is_VTuple(T))
            mem = self.spec.recs["member"].z
            x = z3.Const("q!entry", Val)
            l = Val.titems(x)
            entry = z3.And(Val.is_VTuple(x), VL.is_cons(l), VL.is_cons(VL.tl(l)), VL.tl(VL.tl(l)) == VL.nil,
                           z3.Select(h, VL.hd(l)), z3.Select(m, VL.hd(l)) == VL.hd(VL.tl(l)))
            st.assume(z3.ForAll([x], z3.Implies(mem(x, Val.titems(T)), entry), patterns=[mem(x, Val.titems(T))]))
            yield st, SVal(T)
            return
        if f in (reversed, sorted) and len(args) == 1 and isinstance(args[0], SVal) and not kwargs:
            # another iterable made from the value: an uninterpreted function of it (nothing is known about its order)
            self.used.add("reversed(x) / sorted(x) of a dynamic value: an uninterpreted iterable (or TypeError)")
            bad = st.fork().label("L%d:%s() raises" % (ln, f.__name__))
            yield bad, Raised(TypeError, ExcObj(TypeError))
            yield st, SVal(self.spec.uf["seq_of"](z3.IntVal(2 if f is reversed else 3), args[0].z))
            return
        import threading as _th, itertools as _it2
        for ctor, clsname, init in ((_th.Lock, "Lock", {"held": False}), (_th.Condition, "Condition", {}), (_it2.count, "count", {"nxt": None})):
            if f is ctor and len(args) <= 1 and not kwargs:
                # a NEW library object (lock: not held; counter: starting at its argument, default 0)
                self.used.add("%s(): a new object of the library model class %s" % (getattr(ctor, "__name__", clsname), clsname))
                o = Obj(clsname, "%s@L%d" % (clsname, ln), allocated=True)
                for fld, v in init.items():
                    if fld == "nxt":
                        v = args[0] if args else 0
                    st.heap[(o.oid, fld)] = v
                yield st, o
                return
        if f is bytes and len(args) == 1 and isinstance(args[0], SVal) and not kwargs:
            yield st, engine.narrow(st, args[0], "bytes", node, "argument of bytes()")
            return
        import itertools as _it
        import pickle as _pk
        for fn, opname in ((repr, "repr"), (str, "str"), (hash, "hash"), (dir, "dir"), (_it.islice, "islice"),
                           (_pk.loads, "pickle.loads"), (_pk.dumps, "pickle.dumps")):
            if f is fn and args and fn in (hash, dir, repr) and isinstance(args[0], Sym) and not isinstance(args[0], SVal) and \
                    (hasattr(type(args[0]), "as_val") or isinstance(args[0], (SInt, SStr, SBytes, SBool))):
                args = [SVal(to_val(args[0]))] + list(args[1:])        # the operation applied to a value of a static kind
            if f is fn and args and isinstance(args[0], SVal) and not (fn is str and len(args) != 1):
                # a builtin applied to an arbitrary object runs that object's code: one ghost Op event, any outcome
                self.used.add("%s(obj) on a dynamic object = one ghost Op event, any result, any exception" % opname)
                rest = SVL(to_vl(args[1:]))
                if fn is str:
                    # str(x) of a plain value: its text rendering, no user code (str(text) is the text itself); the
                    # operation is still recorded
                    pl = st.fork().assume(z3.Not(Val.is_VRef(args[0].z)))
                    r = self.spec.uf["str_of"](args[0].z)
                    pl.assume(z3.Implies(Val.is_VStr(args[0].z), r == Val.vs(args[0].z)))
                    pl.trace.append(("Op", opname, args[0].z, rest.z, Val.VStr(r)))
                    yield pl, SStr(r)
                    st = st.fork().assume(Val.is_VRef(args[0].z))
                for cls in [AnyException, AnyBaseException] + list(engine.exc_universe()):
                    b = st.fork().label("L%d:%s raises %s" % (ln, opname, cls.__name__))
                    b.trace.append(("Op", opname, args[0].z, rest.z, "raise"))
                    yield b, Raised(cls, ExcObj(cls, info={"dynamic": True}))
                res = SVal(fresh("%s.result@L%d" % (opname, ln), Val))
                engine.type_invariants(st, [res])
                if opname == "pickle.dumps":
                    st.assume(Val.is_VBytes(res.z))          # library fact: dumps returns bytes
                if opname in ("repr", "str"):
                    st.assume(Val.is_VStr(res.z))            # library fact: repr() / str() return text (TypeError otherwise)
                if opname == "dir" and "all_str" in self.spec.recs:
                    # library fact: dir() returns a list of texts (modelled as the tuple of its items)
                    st.assume(Val.is_VTuple(res.z))
                    st.assume(ops._z(truth(self.R(engine, st, "all_str", SVL(Val.titems(res.z))))))
                st.trace.append(("Op", opname, args[0].z, rest.z, res.z))
                yield st, res
                return
        if f is None or (not callable(f) and not is_sym(f) and not isinstance(f, Obj)):
            yield st.label("L%d:call non-callable" % ln), Raised(TypeError, ExcObj(TypeError))
            return
        allconc = all(not is_sym(a) and not isinstance(a, Obj) and not (isinstance(a, tuple) and any(is_sym(x) for x in a))
                      for a in list(args) + list(kwargs.values()))
        import sys as _sys, os as _os, zlib as _zlib, time as _time
        if f is _time.time and not args:
            self.used.add("time.time(): a ghost clock that never runs backwards (real-valued)")
            yield st, engine.clock_tick(st, "L%d" % ln)
            return
        if f in (min, max) and len(args) == 1 and isinstance(args[0], tuple) and len(args[0]) == 2 and \
                any(isinstance(a, SReal) for a in args[0]):
            a, b = ops.zreal(args[0][0]), ops.zreal(args[0][1])
            yield st, SReal(z3.If(a <= b, a, b) if f is min else z3.If(a <= b, b, a))
            return
        if f is _sys.exc_info:
            if not st.exc_stack:
                yield st, (None, None, None)
            else:
                e = st.exc_stack[-1]
                self.used.add("ASSUMED (T-CLASSNAMES): the class of a raised exception has a text __name__ and __module__")
                c = to_val(e.cls)
                ma = self.spec.uf["meta_attr"]
                st.assume(z3.And(z3.Not(Val.is_VStr(c)), Val.is_VStr(ma(c, seq_lit("__name__"))), Val.is_VStr(ma(c, seq_lit("__module__")))))
                yield st, (e.cls, e.value if e.value is not None else ExcObj(e.cls), TB)
            return
        if f is hasattr and len(args) == 2 and isinstance(args[0], ExcObj) and isinstance(args[1], str):
            o = args[0]
            yield st, (args[1] in o.info) or args[1] == "args" or (isinstance(o.cls, type) and hasattr(o.cls, args[1]))
            return
        for key, fn in (("os.read", _os.read), ("os.write", _os.write), ("zlib.compress", _zlib.compress),
                        ("zlib.decompress", _zlib.decompress)):
            if f is fn and key in engine.store.externals:
                a = list(args)
                if key.startswith("os.") and isinstance(a[0], FdVal):
                    a[0] = a[0].obj
                for r in self.apply_external(engine, st, engine.store.externals[key], a, kwargs, node):
                    yield r
                return
        if f is next and len(args) == 1 and isinstance(args[0], Obj) and isinstance(args[0].cls, str):
            ext = engine.store.externals.get("%s.__next__" % args[0].cls)
            if ext is None:
                raise CheckerError("no library model for next() of %s" % args[0].cls)
            for r in self.apply_external(engine, st, ext, [args[0]], {}, node):
                yield r
            return
        if f is io.BytesIO:
            self.used.add("BytesIO(data)")
            o = Obj("BytesIO", "bytesio", allocated=True)
            data = args[0] if args else b""
            if isinstance(data, SVal):
                ok = Val.is_VBytes(data.z)
                bad = st.fork().assume(z3.Not(ok)).label("L%d:BytesIO non-bytes" % ln)
                yield bad, Raised(TypeError, ExcObj(TypeError))
                st.assume(ok)
                data = SBytes(Val.vby(data.z))
            st.heap[(o.oid, "unread")] = data
            yield st, o
            return
        if isinstance(f, type) and issubclass(f, BaseException):
            yield st, ExcObj(f, tuple(args))
            return
        if f in PURE_BUILTINS and allconc:
            try:
                yield st, f(*args, **kwargs)
            except Exception as e:
                yield st, Raised(type(e), ExcObj(type(e)))
            return
        if f is len and len(args) == 1:
            a = args[0]
            if isinstance(a, (SBytes, SStr)):
                yield st, i2v(z3.Length(a.z))
            elif isinstance(a, (SVL, SFset)):
                yield st, self.R(engine, st, "vlen", SVL(a.z))
            elif isinstance(a, tuple):
                yield st, len(a)
            elif isinstance(a, Obj) and a.kind == "joinlist":
                yield st, engine.heap_get(st, a, "n")
            elif isinstance(a, Obj) and a.kind == "vlist":
                yield st, self.R(engine, st, "vlen", engine.heap_get(st, a, "items"))
            else:
                raise Unsupported("len(%r)" % (a,))
            return
        if f is type and len(args) == 1:
            a = args[0]
            if isinstance(a, SVal):
                yield st, SType(typeof(a.z))
            elif isinstance(a, Sym):
                yield st, {"int": int, "bool": bool, "bytes": bytes, "str": str, "vl": tuple, "fset": frozenset,
                           "slice": slice, "f64": float, "complex": complex}[a.kind]
            elif isinstance(a, Obj):
                yield st, a.cls
            else:
                yield st, type(a)
            return
        if f in (min, max) and len(args) == 2 and all(ops.is_intlike(a) for a in args):
            a, b = zint(args[0]), zint(args[1])
            yield st, i2v(z3.If(a <= b, a, b) if f is min else z3.If(a <= b, b, a))
            return
        if f is str and len(args) == 1 and isinstance(args[0], SInt):
            self.used.add("str(int): decimal rendering, ValueError beyond the interpreter's digit limit")
            i = args[0]
            rend = self.P(engine, st, "renderable", i)
            bad = st.fork().assume(z3.Not(ops._z(truth(rend)))).label("L%d:str(int) raises" % ln)
            yield bad, Raised(ValueError, ExcObj(ValueError))
            st.assume(ops._z(truth(rend)))
            yield st, IntText(self.spec.uf["int_str"](i.z), i)
            return
        if f is bytes and len(args) == 2 and isinstance(args[0], IntText) and args[1] in ("utf8", "utf-8"):
            self.used.add("bytes(str(i), 'utf8') == ASCII decimal digits of i")
            yield st, self.P(engine, st, "dec", args[0].intval)
            return
        if f is bytes and len(args) == 2 and isinstance(args[0], SStr) and args[1] in ("utf8", "utf-8"):
            for r in self.call_symmethod(engine, st, SymMethod(args[0], "encode"), ["utf8"], {}, node):
                yield r
            return
        if f is int and len(args) == 1 and isinstance(args[0], SBytes):
            self.used.add("int(bytes): decimal parse or ValueError")
            ok = self.P(engine, st, "is_decimal", args[0])
            bad = st.fork().assume(z3.Not(ops._z(truth(ok)))).label("L%d:int() raises" % ln)
            yield bad, Raised(ValueError, ExcObj(ValueError))
            st.assume(ops._z(truth(ok)))
            i = self.P(engine, st, "undec", args[0])
            # the interpreter's digit limit applies to parsing as to rendering; the canonical rendering of the
            # parsed number is not longer than the text it was parsed from
            st.assume(ops._z(truth(self.P(engine, st, "renderable", i))))
            st.assume(z3.Length(self.P(engine, st, "dec", i).z) <= z3.Length(args[0].z))
            yield st, i
            return
        if f is tuple and len(args) == 1:
            a = args[0]
            if isinstance(a, SFset):
                self.used.add("tuple(frozenset): some fixed iteration order (order_of), a permutation of the items")
                yield st, self.P_order(engine, st, a)
                return
            if isinstance(a, SVL) or isinstance(a, tuple):
                yield st, a
                return
        if f is complex and len(args) == 2 and all(isinstance(a, SF64) for a in args):
            self.used.add("complex(re, im) of two floats stores them unchanged: T-FLOAT")
            yield st, SVal(Val.VComplex(args[0].z, args[1].z))
            return
        if f is slice and len(args) == 3:
            yield st, SVal(Val.VSlice(*[to_val(a) for a in args]))
            return
        if f is slice and len(args) == 2:
            yield st, SVal(Val.VSlice(to_val(args[0]), to_val(args[1]), Val.VNone))
            return
        if f is frozenset and len(args) == 1:
            for r in self.make_frozenset(engine, st, args[0], node):
                yield r
            return
        if f is range and 1 <= len(args) <= 2 and all(ops.is_intlike(a) for a in args):
            lo, hi = (0, args[0]) if len(args) == 1 else args
            yield st, ops_SymRange(zint(lo), zint(hi))
            return
        if f is isinstance and len(args) == 2 and isinstance(args[0], SVal) and isinstance(args[1], type) and \
                args[1] not in TYPE_ID:
            # instance of a class that is not one of the plain types: only a heap object can be one
            v = args[0].z
            yield st, b2v(z3.And(Val.is_VRef(v), self.spec.uf["subclass_inst"](Val.oid(v), type_id(args[1]))))
            return
        if f is isinstance and len(args) == 2 and not (isinstance(args[0], SVal) and isinstance(args[1], type) and args[1] in TYPE_ID):
            yield st, self.isinstance_(args[0], args[1])
            return
        if f in (getattr, setattr, delattr) and args and isinstance(args[0], (SVal, SType)) and \
                len(args) == {getattr: 2, setattr: 3, delattr: 2}[f]:
            kind = {getattr: "GetAttr", setattr: "SetAttr", delattr: "DelAttr"}[f]
            for r in self.dyn_attr_event(engine, st, kind, args[0], args[1], node,
                                         value=to_val(args[2]) if f is setattr else None):
                yield r
            return
        if f is isinstance and len(args) == 2 and isinstance(args[0], SVal) and isinstance(args[1], type) and \
                args[1] in TYPE_ID:
            self.used.add("isinstance(x, T): exact type T, or an instance of a subclass of T (a heap object)")
            v = args[0].z
            exact = typeof(v) == TYPE_ID[args[1]]
            sub = z3.And(Val.is_VRef(v), self.spec.uf["subclass_inst"](Val.oid(v), TYPE_ID[args[1]]))
            if args[1] is int:
                exact = z3.Or(exact, Val.is_VBool(v))
            yield st, b2v(z3.Or(exact, sub))
            return
        import inspect as _inspect
        if f is id and len(args) == 1:
            self.used.add("id(x): an integer naming the object (T-ID: distinct for simultaneously live objects)")
            r = self.spec.uf["py_id"](to_val(args[0]))
            st.assume(z3.And(r >= 0, r < 2 ** 64))
            yield st, SInt(r)
            return
        if f is print:
            yield st, None            # A-LOG
            return
        if f is _inspect.ismodule and len(args) == 1:
            yield st, b2v(self.spec.uf["is_module"](to_val(args[0])))
            return
        if f is _inspect.isclass and len(args) == 1:
            yield st, b2v(self.spec.uf["is_class"](to_val(args[0])))
            return
        if f is issubclass and len(args) == 2 and isinstance(args[0], SVal) and args[1] is BaseException:
            # issubclass(x, BaseException): TypeError unless x is a class; else the uninterpreted predicate is_exception_class
            self.used.add("issubclass(x, BaseException): the predicate is_exception_class(x); TypeError if x is not a class")
            v = args[0].z
            isc = z3.And(Val.is_VRef(v), self.spec.uf["subclass_inst"](Val.oid(v), type_id(type)))
            bad = st.fork().assume(z3.Not(isc)).label("L%d:issubclass of a non-class" % ln)
            yield bad, Raised(TypeError, ExcObj(TypeError))
            st.assume(isc)
            yield st, b2v(self.spec.uf["is_exception_class"](v))
            return
        import types as _types
        if f is getattr and len(args) == 3 and (isinstance(args[0], _types.ModuleType) or
                                                (isinstance(args[0], SVal) and z3.is_app(args[0].z) and args[0].z.decl().name() == "sys_module")):
            # getattr(module, name, default): a pure lookup in the module's namespace (module-level __getattr__ hooks are
            # ignored - stated assumption); a name that is not text is a TypeError
            self.used.add("getattr(module, name, default): a pure lookup in the module's namespace; TypeError if the name is not text")
            nm = to_val(args[1])
            bad = st.fork().assume(z3.Not(Val.is_VStr(nm))).label("L%d:attribute name not text" % ln)
            yield bad, Raised(TypeError, ExcObj(TypeError))
            st.assume(Val.is_VStr(nm))
            m = to_val(args[0])
            has = self.spec.uf["has_attr"](m, Val.vs(nm))
            yield st, merge_values(has, SVal(self.spec.uf["module_attr"](m, nm)), args[2])
            return
        if f is getattr and len(args) == 3 and isinstance(args[0], Obj) and isinstance(args[0].cls, type) and isinstance(args[1], (SStr, SVal)):
            # getattr(self, <computed name>, default): one of the class's methods whose name it is, else the default
            # (instance attributes with computed names are not modelled: stated)
            import inspect as _insp
            self.used.add("getattr(self, computed_name, default): resolves to the class's method of that name, else the default")
            nm = zseq(args[1]) if isinstance(args[1], SStr) else Val.vs(args[1].z)
            if isinstance(args[1], SVal):
                bad = st.fork().assume(z3.Not(Val.is_VStr(args[1].z))).label("L%d:attribute name not text" % ln)
                yield bad, Raised(TypeError, ExcObj(TypeError))
                st.assume(Val.is_VStr(args[1].z))
            rest = st
            prefix = ""
            if z3.is_app(nm) and nm.decl().kind() == z3.Z3_OP_SEQ_CONCAT and z3.is_string_value(nm.arg(0)) is False:
                try:
                    first = nm.arg(0)
                    units = []
                    def lit(e):
                        if e.decl().kind() == z3.Z3_OP_SEQ_UNIT and z3.is_int_value(e.arg(0)):
                            units.append(e.arg(0).as_long()); return True
                        if e.decl().kind() == z3.Z3_OP_SEQ_CONCAT:
                            return all(lit(c) for c in e.children())
                        return False
                    if lit(first):
                        prefix = "".join(chr(u) for u in units)
                except Exception:
                    prefix = ""
            for mname, raw in sorted(_insp.getmembers(args[0].cls, predicate=_insp.isfunction)):
                if not engine.is_repo_function(raw):
                    continue
                if prefix and not mname.startswith(prefix):
                    continue            # the computed name starts with a literal prefix this method's name lacks
                hit = rest.fork().assume(nm == seq_lit(mname)).label("L%d:getattr %s" % (ln, mname))
                if engine.feasible(hit):
                    yield hit, BoundMethod(args[0], raw, mname)
                rest = rest.fork().assume(nm != seq_lit(mname))
            yield rest.label("L%d:getattr default" % ln), args[2]
            return
        if f is getattr and len(args) == 3 and isinstance(args[0], SVal) and args[1] not in ("__name__", "__module__"):
            # getattr(obj, name, default) on a dynamic object: one GetAttr event; AttributeError means the default
            self.used.add("getattr(obj, name, default) on a dynamic object = one ghost GetAttr event; AttributeError yields the default")
            for st2, r in self.dyn_attr_event(engine, st, "GetAttr", args[0], args[1], node):
                if isinstance(r, Raised) and r.cls is AttributeError:
                    yield st2.label("L%d:default" % ln), args[2]
                else:
                    yield st2, r
            return
        if f is getattr and len(args) == 3 and isinstance(args[0], SVal) and args[1] in ("__name__", "__module__"):
            self.used.add("getattr(obj, '__name__', default): a pure lookup")
            # the attribute, or the default if the object has none
            has = self.spec.uf["has_attr"](args[0].z, seq_lit(args[1]))
            yield st, merge_values(has, SVal(self.spec.uf["meta_attr"](args[0].z, seq_lit(args[1]))), args[2])
            return
        if f is hasattr and len(args) == 2 and (isinstance(args[0], SVal) or isinstance(args[0], SType)):
            self.used.add("hasattr(obj, name): a pure predicate of (object, name) - assumed free of side effects")
            nm = engine.narrow(st, args[1], "str", node, "attribute name")
            tgt = to_val(args[0]) if isinstance(args[0], SVal) else Val.VRef(-1 - args[0].z)
            yield st, b2v(self.spec.uf["has_attr"](tgt, zseq(nm)))
            return
        if f is getattr and len(args) == 3 and isinstance(args[0], SType) and isinstance(args[1], (str, SStr)):
            self.used.add("getattr(type(obj), name, default): the class attribute or the default, no side effects")
            yield st, SVal(self.spec.uf["class_attr"](args[0].z, zseq(args[1]), to_val(args[2])))
            return
        if f is str and len(args) == 1 and isinstance(args[0], SStr):
            yield st, args[0]
            return
        if f is str and len(args) == 1 and isinstance(args[0], SVal):
            self.used.add("str(x) of a plain value: its text rendering (no user code); str(text) is the text itself")
            z = args[0].z
            ref = st.fork().assume(Val.is_VRef(z))
            engine.oblige(ref, "no-dynamic-str@L%d[%s]" % (ln, engine.path_label(ref)), FALSE,
                          props=engine.all_props(engine.cur[1]), kind="pre",
                          note="str() of an arbitrary heap object runs its __str__: not modelled; the value must be plain here")
            st.assume(z3.Not(Val.is_VRef(z)))
            r = self.spec.uf["str_of"](z)
            st.assume(z3.Implies(Val.is_VStr(z), r == Val.vs(z)))
            yield st, SStr(r)
            return
        if f is str and len(args) == 2 and args[1] in ("utf8", "utf-8") and isinstance(args[0], (SVal, SBytes)):
            b = engine.narrow(st, args[0], "bytes", node, "str(x, 'utf8') argument")
            for r in self.call_symmethod(engine, st, SymMethod(b, "decode"), ["utf8"], {}, node):
                yield r
            return
        if f in (list, tuple, set) and len(args) == 1 and isinstance(args[0], Obj) and args[0].kind == "dict" and "member" in self.spec.recs:
            # list(d) / tuple(d) / set(d): the keys of the dict at this moment - a tuple T (lists are modelled as tuples) with
            # k in T  <=>  k in d, for every k
            self.used.add("list(d) of a dict: a sequence holding exactly the dict's keys (forall k: k in it <=> k in d)")
            m, h = self.dget(engine, st, args[0])
            T = fresh("keys@L%d" % ln, Val)
            st.assume(Val.is_VTuple(T))
            mem = self.spec.recs["member"].z
            k = z3.Const("q!key", Val)
            st.assume(z3.ForAll([k], z3.Select(h, k) == mem(k, Val.titems(T)), patterns=[mem(k, Val.titems(T))]))
            st.assume(z3.ForAll([k], z3.Implies(z3.Select(h, k), mem(k, Val.titems(T))), patterns=[z3.Select(h, k)]))
            yield st, SVal(T)
            return
        if f in (list, tuple) and len(args) == 1 and isinstance(args[0], Obj) and args[0].kind == "vlist":
            yield st, SVal(Val.VTuple(engine.heap_get(st, args[0], "items").z))
            return
        if f in (list, tuple) and len(args) == 1 and isinstance(args[0], SVal):
            self.used.add("tuple(x) / list(x) of a dynamic value: an uninterpreted function of x (or TypeError)")
            if args[0].z.get_id() not in self.views:       # a dict view is always iterable
                bad = st.fork().label("L%d:%s() raises" % (ln, f.__name__))
                yield bad, Raised(TypeError, ExcObj(TypeError))
            res = self.spec.uf["seq_of"](z3.IntVal(0 if f is tuple else 1), args[0].z)
            st.assume(Val.is_VTuple(res))          # a list / tuple (lists are modelled as the tuple of their items)
            yield st, SVal(res)
            return
        if f is dict and len(args) == 1 and isinstance(args[0], (SVal, SVL, tuple)) and not kwargs:
            self.used.add("dict(pairs): an opaque mapping value determined by the pairs, or TypeError/ValueError")
            for cls in (TypeError, ValueError):
                b = st.fork().label("L%d:dict() raises %s" % (ln, cls.__name__))
                yield b, Raised(cls, ExcObj(cls))
            yield st, SVal(self.spec.uf["dict_of"](to_val(args[0])))
            return
        if f is dict and len(args) == 1 and kwargs and (isinstance(args[0], SVal) or (isinstance(args[0], Obj) and args[0].kind == "dict")):
            # dict(mapping, key=value, ...): a NEW dict - the mapping's entries (unknown when the mapping is a dynamic value),
            # overridden by the keywords
            self.used.add("dict(mapping, **kw): a new dict holding the mapping's entries overridden by the keywords")
            src = args[0]
            if isinstance(src, SVal):
                for cls in (TypeError, ValueError):
                    b = st.fork().label("L%d:dict() raises %s" % (ln, cls.__name__))
                    yield b, Raised(cls, ExcObj(cls))
                m = fresh("dict(...).map@L%d" % ln, z3.ArraySort(Val, Val))
                h = fresh("dict(...).has@L%d" % ln, z3.ArraySort(Val, z3.BoolSort()))
            else:
                m, h = self.dget(engine, st, src)
            for k, v in kwargs.items():
                m = z3.Store(m, to_val(k), to_val(v))
                h = z3.Store(h, to_val(k), True)
            o = Obj(dict, "dict(...)@L%d" % ln, "dict", allocated=True)
            st.heap[(o.oid, "map")] = SArr(m)
            st.heap[(o.oid, "has")] = SArr(h)
            yield st, o
            return
        if isinstance(f, SVal):
            if kwargs:
                raise Unsupported("keywords in a call of a dynamic value")
            for r in self.apply_dynamic(engine, st, f, SVL(to_vl(args)), node):
                yield r
            return
        raise Unsupported("call of %r with %r (line %d)" % (f, args, node.lineno))

    def P_order(self, engine, st, fs):
        """tuple(frozenset): the frozenset's iteration order"""
        o = self.P(engine, st, "order_of", SVL(fs.z))
        for fact in self.spec.perm_facts(engine, st, o, SVL(fs.z)):
            st.assume(fact)
        return SVL(o.z)

    def make_frozenset(self, engine, st, a, node):
        self.used.add("frozenset(iterable of hashable plain values): canonical item list (canon)")
        ln = engine.rel_line(node)
        if isinstance(a, SVal):
            v = a.z
            # iterable plain values: tuple, frozenset, bytes, str; others raise TypeError
            ist = Val.is_VTuple(v)
            other = st.fork().assume(z3.Not(ist)).label("L%d:frozenset(non-tuple)" % ln)
            for r in self.frozenset_of_nontuple(engine, other, a, node):
                yield r
            st.assume(ist)
            a = SVL(Val.titems(v))
        if isinstance(a, (SVL, tuple)):
            l = a if isinstance(a, SVL) else SVL(to_vl(a))
            # items must be plain (hashing an arbitrary heap object would run its __hash__: not modelled);
            # unhashable plain items (slices before 3.12) make frozenset() raise TypeError
            isplain = self.R(engine, st, "plain_list", l)
            bad = st.fork().assume(z3.Not(ops._z(truth(isplain)))).label("L%d:frozenset of non-plain" % ln)
            engine.oblige(bad, "frozenset-items-plain@L%d[%s]" % (ln, engine.path_label(bad)), FALSE,
                          props=engine.all_props(engine.cur[1]), kind="pre",
                          note="frozenset() of arbitrary heap objects (their __hash__) is not modelled")
            st.assume(ops._z(truth(isplain)))
            hashable = ops._z(truth(self.P(engine, st, "hashable_list", l)))
            unh = st.fork().assume(z3.Not(hashable)).label("L%d:frozenset unhashable" % ln)
            yield unh, Raised(TypeError, ExcObj(TypeError))
            st.assume(hashable)
            c = self.P(engine, st, "canon", l)
            for fact in self.spec.canon_facts(engine, st, c, l):
                st.assume(fact)
            yield st, SVal(Val.VFset(c.z))
            return
        raise Unsupported("frozenset(%r)" % (a,))

    def frozenset_of_nontuple(self, engine, st, a, node):
        v = a.z
        ln = engine.rel_line(node)
        # frozenset(frozenset) -> itself ; frozenset(bytes/str) -> ints / 1-char texts ; else TypeError
        isf = Val.is_VFset(v)
        s1 = st.fork().assume(isf)
        if engine.feasible(s1):
            yield s1, a
        isseq = z3.Or(Val.is_VBytes(v), Val.is_VStr(v))
        s2 = st.fork().assume(isseq)
        if engine.feasible(s2):
            r = SVal(fresh("fset_of_seq", Val))
            s2.assume(Val.is_VFset(r.z))
            s2.assume(ops._z(truth(self.R(engine, s2, "plain", r))))
            s2.assume(z3.Implies(ops._z(truth(self.R(engine, s2, "sized", a))), ops._z(truth(self.R(engine, s2, "sized", r)))))
            yield s2, r
        s3 = st.fork().assume(z3.Not(z3.Or(isf, isseq))).label("L%d:frozenset raises" % ln)
        for r in self.not_iterable(engine, s3, a, node):
            yield r

    def not_iterable(self, engine, st, a, node):
        isref = Val.is_VRef(a.z)
        ref = st.fork().assume(isref)
        engine.oblige(ref, "no-dynamic-iter@L%d[%s]" % (engine.rel_line(node), engine.path_label(ref)), FALSE,
                      props=engine.all_props(engine.cur[1]), kind="pre",
                      note="iteration over an arbitrary heap object is not modelled; the value must be plain here")
        st.assume(z3.Not(isref))
        yield st, Raised(TypeError, ExcObj(TypeError))

    def isinstance_(self, x, cls):
        classes = cls if isinstance(cls, tuple) else (cls,)
        if isinstance(x, Obj):
            return isinstance(x.cls, type) and any(issubclass(x.cls, c) for c in classes)
        if isinstance(x, Sym) and not isinstance(x, SVal):
            t = {"int": int, "bool": bool, "bytes": bytes, "str": str, "vl": tuple, "fset": frozenset,
                 "slice": slice, "f64": float, "real": float, "complex": complex}[x.kind]
            return any(issubclass(t, c) for c in classes)
        if not is_sym(x):
            return isinstance(x, classes)
        raise Unsupported("isinstance on dynamic value")

    # -- subscripts ---------------------------------------------------------------------------
    def getitem(self, engine, st, o, k, node):
        import sys as _sys
        if o is _sys.modules:
            # sys.modules[name]: the module imported under that name (KeyError if none)
            self.used.add("sys.modules[name]: an uninterpreted function of the name; KeyError when `name in sys.modules` is false")
            inside = ops._z(truth(self.contains_sysmodules(engine, st, k)))
            bad = st.fork().assume(z3.Not(inside)).label("L%d:not imported" % engine.rel_line(node))
            yield bad, Raised(KeyError, ExcObj(KeyError))
            st.assume(inside)
            yield st, SVal(self.spec.uf["sys_module"](to_val(k)))
            return
        fn = self.repo_dunder(engine, o, "__getitem__")
        if fn is not None:
            for r in engine.call_repo(st, fn, [o, k], {}, node):
                yield r
            return
        if isinstance(o, SVal) and type(k) is int and k >= 0:
            # indexing a dynamic value with a constant: tuples yield their item (IndexError if too short); bytes / text
            # yield a plain element; other plain values are not subscriptable; heap objects are not modelled here
            z = o.z
            ln = engine.rel_line(node)
            self.R(engine, st, "plain", o)
            cur = Val.titems(z)
            for _ in range(k):
                cur = VL.tl(cur)
            spine_ok = [VL.is_cons(c) for c in [Val.titems(z)] + [None] * 0]
            have = Val.is_VTuple(z)
            walk = Val.titems(z)
            conds = [have]
            for _ in range(k + 1):
                conds.append(VL.is_cons(walk))
                walk = VL.tl(walk)
            good = st.fork().assume(z3.And(conds)).label("L%d:[%d] of tuple" % (ln, k))
            if engine.feasible(good):
                # unfold the element-wise predicates along the visited cells (the items of a plain tuple are plain, ...)
                self.R(engine, good, "plain", o)
                self.R(engine, good, "sized", o)
                cell = Val.titems(z)
                for _ in range(k + 1):
                    for fn in ("plain_list", "sized_list"):
                        self.R(engine, good, fn, SVL(cell))
                    cell = VL.tl(cell)
                yield good, SVal(VL.hd(cur))
            short = st.fork().assume(z3.And(have, z3.Not(z3.And(conds)))).label("L%d:[%d] IndexError" % (ln, k))
            if engine.feasible(short):
                yield short, Raised(IndexError, ExcObj(IndexError))
            seq = st.fork().assume(z3.Or(Val.is_VBytes(z), Val.is_VStr(z))).label("L%d:[%d] of bytes/text" % (ln, k))
            if engine.feasible(seq):
                r = SVal(fresh("elem", Val))
                by_, tx_ = Val.vby(z), Val.vs(z)
                # an element of bytes is a byte (an int in 0..255), an element of a text a one-character text
                seq.assume(z3.If(Val.is_VBytes(z), z3.And(r.z == Val.VInt(by_[k]), by_[k] >= 0, by_[k] < 256),
                                 r.z == Val.VStr(z3.Unit(tx_[k]))))
                for fn in ("plain", "sized"):
                    self.R(engine, seq, fn, r)
                yield seq, r
                yield seq.fork().label("IndexError"), Raised(IndexError, ExcObj(IndexError))
            other = st.fork().assume(z3.Not(z3.Or(have, Val.is_VBytes(z), Val.is_VStr(z)))).label("L%d:[%d] not subscriptable" % (ln, k))
            if engine.feasible(other):
                ref = other.fork().assume(Val.is_VRef(z))
                if engine.cur[0].dynamic_errors:
                    if engine.feasible(ref):
                        for r in self.op_event(engine, ref, "getitem", o, [k], node):
                            yield r
                else:
                  engine.oblige(ref, "no-dynamic-getitem@L%d[%s]" % (ln, engine.path_label(ref)), FALSE,
                              props=engine.all_props(engine.cur[1]), kind="pre",
                              note="subscripting an arbitrary heap object is not modelled; the value must be plain here")
                other.assume(z3.Not(Val.is_VRef(z)))
                yield other, Raised(TypeError, ExcObj(TypeError))
            return
        if isinstance(o, Obj) and o.kind == "dict":
            m, h = self.dget(engine, st, o)
            kk = to_val(k)
            res = EntryRef(o, kk) if getattr(o, "valkind", None) == "slot" else \
                engine.inner_dict(o, kk) if getattr(o, "valkind", None) == "dict" else SVal(z3.Select(m, kk))
            for r in engine.with_errs(st, (res, [(KeyError, z3.Not(z3.Select(h, kk)))]), node):
                yield r
            return
        if isinstance(o, EntryRef) and type(k) is int and 0 <= k <= 1:
            m, h = self.dget(engine, st, o.d)
            l = Val.titems(z3.Select(m, o.key))
            yield st, SVal(VL.hd(l) if k == 0 else VL.hd(VL.tl(l)))
            return
        if isinstance(o, (tuple, list)) and not is_sym(k):
            try:
                yield st, o[k]
            except Exception as e:
                yield st, Raised(type(e), ExcObj(type(e)))
            return
        if isinstance(o, dict):
            if not is_sym(k):
                if k in o:
                    yield st, o[k]
                else:
                    yield st, Raised(KeyError, ExcObj(KeyError))
                return
            for r in engine.with_errs(st, ops.const_table_lookup(o, k), node):
                yield r
            return
        if isinstance(o, (SBytes, SStr)) and ops.is_intlike(k):
            n = z3.Length(o.z)
            kk = zint(k)
            res = i2v(o.z[z3.If(kk < 0, kk + n, kk)])
            for r in engine.with_errs(st, (res, [(IndexError, z3.Or(kk >= n, kk < -n))]), node):
                yield r
            return
        raise Unsupported("subscript %r[%r] (line %d)" % (o, k, node.lineno))

    def setitem(self, engine, st, o, k, v, node):
        fn = self.repo_dunder(engine, o, "__setitem__")
        if fn is not None:
            return [(s1, (r if isinstance(r, Raised) else None)) for s1, r in engine.call_repo(st, fn, [o, k, v], {}, node)]
        if isinstance(o, Obj) and o.kind == "dict":
            m, h = self.dget(engine, st, o)
            kk = to_val(k)
            if isinstance(v, EntryRef):
                if v.d is not o:
                    raise Unsupported("a slot of one table stored into another")
                vv = z3.Select(m, v.key)           # the very list object that is (or was) stored under v.key
            elif getattr(o, "valkind", None) == "dict":
                # a dict stored into a dict-of-dicts: its contents become the entry's contents (only the empty literal and
                # another entry's inner dict are modelled)
                if isinstance(v, dict) and not v:
                    im, ih = z3.K(Val, Val.VNone), z3.K(Val, z3.BoolVal(False))
                elif isinstance(v, Obj) and v.kind == "dict":
                    im, ih = self.dget(engine, st, v)
                else:
                    raise Unsupported("value stored into a dict of dicts (line %d)" % node.lineno)
                st.heap[(o.oid, "map2")] = SArr(z3.Store(engine.heap_get(st, o, "map2").z, kk, im))
                st.heap[(o.oid, "has2")] = SArr(z3.Store(engine.heap_get(st, o, "has2").z, kk, ih))
                st.heap[(o.oid, "has")] = SArr(z3.Store(h, kk, True))
                return [(st, None)]
            else:
                vv = to_val(v)
                if isinstance(v, SReal):
                    # a point in time stored as a float object reads back as the same point in time (floats as reals)
                    st.assume(self.spec.uf["f64_real"](ops.REAL_F64(v.z)) == v.z)
            engine.dict_put(st, o, m=z3.Store(m, kk, vv), h=z3.Store(h, kk, True))
            return [(st, None)]
        if isinstance(o, EntryRef) and type(k) is int and 0 <= k <= 1:
            m, h = self.dget(engine, st, o.d)
            l = Val.titems(z3.Select(m, o.key))
            new = VL.cons(to_val(v), VL.tl(l)) if k == 0 else VL.cons(VL.hd(l), VL.cons(to_val(v), VL.tl(VL.tl(l))))
            st.heap[(o.d.oid, "map")] = SArr(z3.Store(m, o.key, Val.VTuple(new)))
            return [(st, None)]
        raise Unsupported("subscript assignment (line %d)" % node.lineno)

    def slice(self, engine, st, o, lo, hi, step, node):
        if step is not None:
            src = o.vl if isinstance(o, VarArgs) else o
            if isinstance(src, SVL) and not is_sym(step):
                # a stepped slice of an item list: an uninterpreted list (nothing is known about it but what it was made from)
                self.used.add("x[a:b:step] of an item list: an uninterpreted function of the list and the bounds")
                f = z3.Function("stepped_slice", VL, Val, Val, Val, VL)
                yield st, SVL(f(src.z, to_val(lo), to_val(hi), to_val(step)))
                return
            raise Unsupported("slice step")
        if not is_sym(o) and not is_sym(lo) and not is_sym(hi):
            yield st, o[lo:hi]
            return
        if isinstance(o, (SBytes, SStr, bytes, str)):
            W = SBytes if ops.is_byteslike(o) else SStr
            z = zseq(o)
            n = z3.Length(z)

            def clamp(k):
                kk = zint(k)
                return z3.If(kk < 0, z3.If(kk + n < 0, 0, kk + n), z3.If(kk > n, n, kk))

            def split(k):
                """decomposition z == a ++ b with |a| == clamp(k); cached per (z, k)"""
                cache = st.ghost.setdefault(self.slice_cache_key, {})
                key = (z.sexpr(), zint(k).sexpr())
                if key not in cache:
                    a, b = fresh("sl", Bytes), fresh("sl", Bytes)
                    st.assume(z == z3.Concat(a, b))
                    st.assume(z3.Length(a) == clamp(k))
                    cache = dict(cache)
                    cache[key] = (a, b)
                    st.ghost[self.slice_cache_key] = cache
                return cache[key]
            if lo is None and hi is not None:
                yield st, W(split(hi)[0])
                return
            if hi is None and lo is not None:
                yield st, W(split(lo)[1])
                return
            if lo is None and hi is None:
                yield st, o
                return
        raise Unsupported("slice of %r (line %d)" % (o, node.lineno))

    def new_list(self, engine, st, vs, node):
        if all(ops.is_byteslike(v) for v in vs):
            o = Obj(list, "list@L%d" % engine.rel_line(node), "joinlist", allocated=True)
            st.heap[(o.oid, "joined")] = SBytes(z3.Concat(*[zseq(v) for v in vs])) if len(vs) > 1 else \
                (SBytes(zseq(vs[0])) if vs else b"")
            st.heap[(o.oid, "n")] = len(vs)
            return o
        return list(vs)

    # -- comprehension idioms -------------------------------------------------------------------
    def comprehension(self, engine, st, kind, gen, call_node):
        """tuple(f(x) for x in xs) / all(...) / any(...) as a loop with an accumulator `acc`"""
        if len(gen.generators) != 1 or gen.generators[0].ifs:
            raise Unsupported("comprehension form")
        g = gen.generators[0]
        acc = ast.Name(id="acc", ctx=ast.Store())
        accl = ast.Name(id="acc", ctx=ast.Load())
        if kind in ("tuple", "list"):
            body = [ast.Assign(targets=[acc], value=ast.Call(func=ast.Name(id="__snoc__", ctx=ast.Load()),
                                                               args=[accl, gen.elt], keywords=[]))]
            init = SVL(VL.nil)
        else:
            stopval = (kind == "any")
            test = gen.elt if kind == "any" else ast.UnaryOp(op=ast.Not(), operand=gen.elt)
            body = [ast.If(test=test, body=[ast.Assign(targets=[acc], value=ast.Constant(value=stopval)), ast.Break()],
                           orelse=[])]
            init = not stopval
        loop = ast.For(target=g.target, iter=g.iter, body=body, orelse=[])
        for n in ast.walk(loop):
            ast.copy_location(n, gen) if not hasattr(n, "lineno") else None
        ast.fix_missing_locations(loop)
        engine.loop_nodes[id(loop)] = engine.loop_nodes[id(gen)]
        saved = {k: st.env.get(k, _MISSING) for k in ["acc"] + [n.id for n in ast.walk(g.target) if isinstance(n, ast.Name)]}
        st.env["acc"] = init
        st.env["__snoc__"] = _SNOC
        try:
            engine.cur_loop_contract = engine.loop_contract(loop)[1]
        except CheckerError:
            # no loop contract: fine when the iterable turns out to be a literal sequence (unrolled); for_over reports the
            # missing contract itself otherwise
            engine.cur_loop_contract = {}
        for st1, out in engine.exec_stmt(st, loop):
            res = st1.env.get("acc")
            for k, v in saved.items():
                if v is _MISSING:
                    st1.env.pop(k, None)
                else:
                    st1.env[k] = v
            st1.env.pop("__snoc__", None)
            if isinstance(out, Raised):
                yield st1, out
            elif out is None:
                yield st1, res
            else:
                raise Unsupported("control flow out of comprehension")

    def call_snoc(self, engine, st, acc, x):
        if isinstance(acc, tuple):
            return acc + (x,)
        l = self.R(engine, st, "snoc", acc, SVal(to_val(x)))
        lc = getattr(engine, "cur_loop_contract", None) or {}
        engine.use_hints(st, lc.get("snoc_hints", []), {"acc": acc, "x": SVal(to_val(x))})
        return SVL(l.z)

    # -- misc hooks -----------------------------------------------------------------------------
    def iter_val(self, engine, st, v, node):
        """iteration over a dynamic value: tuples and frozensets yield their items; other plain values
        are not iterable (TypeError) or outside the subset (bytes/str/heap objects: must be infeasible)"""
        z = v.z
        ln = engine.rel_line(node)
        for fn in ("plain", "sized"):
            self.R(engine, st, fn, v)           # definitions of the element-wise predicates at the iterated value
        if engine.cur[0].merge_iteration:
            # one path for every plain iterable: the items are defined by cases (tuple: its items; frozenset: its items in
            # iteration order; bytes / text: plain elements)
            it = z3.Or(Val.is_VTuple(z), Val.is_VFset(z), Val.is_VBytes(z), Val.is_VStr(z))
            g = st.fork().assume(it).label("L%d:iter" % ln)
            if engine.feasible(g):
                order = self.P_order(engine, g, SFset(Val.fitems(z)))
                other = SVL(self.spec.uf["iter_items"](z))
                for fn in ("plain_list", "sized_list"):
                    g.assume(z3.Implies(z3.Or(Val.is_VBytes(z), Val.is_VStr(z)), ops._z(truth(self.R(engine, g, fn, other)))))
                yield g, SVL(z3.If(Val.is_VTuple(z), Val.titems(z), z3.If(Val.is_VFset(z), order.z, other.z)))
            c = st.fork().assume(z3.Not(it)).label("L%d:iter other" % ln)
            if engine.feasible(c):
                d = c.fork().assume(Val.is_VRef(z))
                engine.oblige(d, "no-dynamic-iter@L%d[%s]" % (ln, engine.path_label(d)), FALSE,
                              props=engine.all_props(engine.cur[1]), kind="pre",
                              note="iteration over an arbitrary heap object is not modelled here; must be infeasible")
                c.assume(z3.Not(Val.is_VRef(z)))
                yield c, Raised(TypeError, ExcObj(TypeError))
            return
        a = st.fork().assume(Val.is_VTuple(z)).label("L%d:iter tuple" % ln)
        if engine.feasible(a):
            yield a, SVL(Val.titems(z))
        b = st.fork().assume(Val.is_VFset(z)).label("L%d:iter fset" % ln)
        if engine.feasible(b):
            yield b, self.P_order(engine, b, SFset(Val.fitems(z)))
        s_ = st.fork().assume(z3.Or(Val.is_VBytes(z), Val.is_VStr(z))).label("L%d:iter bytes/text" % ln)
        if engine.feasible(s_):
            self.used.add("iterating bytes / text yields plain elements (ints / one-character texts)")
            elems = SVL(self.spec.uf["iter_items"](z))
            for fn in ("plain_list", "sized_list"):
                s_.assume(ops._z(truth(self.R(engine, s_, fn, elems))))
            yield s_, elems
        c = st.fork().assume(z3.Not(z3.Or(Val.is_VTuple(z), Val.is_VFset(z), Val.is_VBytes(z), Val.is_VStr(z)))).label("L%d:iter other" % ln)
        if engine.feasible(c):
            d = c.fork().assume(Val.is_VRef(z))
            engine.oblige(d, "no-dynamic-iter@L%d[%s]" % (ln, engine.path_label(d)), FALSE,
                          props=engine.all_props(engine.cur[1]), kind="pre",
                          note="iteration over an arbitrary heap object is not modelled here; must be infeasible")
            c.assume(z3.Not(Val.is_VRef(z)))
            yield c, Raised(TypeError, ExcObj(TypeError))

    def unpack_failure(self, engine, st, v, n):
        """unpacking a dynamic value that is not an n-tuple"""
        z = v.z
        # a plain non-iterable raises TypeError; an iterable of another length raises ValueError
        it = z3.Or(Val.is_VTuple(z), Val.is_VFset(z), Val.is_VBytes(z), Val.is_VStr(z))
        a = st.fork().assume(it)
        res = []
        if engine.feasible(a):
            # bytes/str/frozenset of exactly n elements do unpack, into values that are plain
            res.append((a, Raised(ValueError, ExcObj(ValueError))))
        b = st.fork().assume(z3.Not(it))
        ref = b.fork().assume(Val.is_VRef(z))
        engine.oblige(ref, "no-dynamic-iter@unpack[%s]" % engine.path_label(ref), FALSE,
                      props=engine.all_props(engine.cur[1]), kind="pre",
                      note="unpacking an arbitrary heap object is not modelled")
        b.assume(z3.Not(Val.is_VRef(z)))
        res.append((b, Raised(TypeError, ExcObj(TypeError))))
        return res

    def raise_dynamic(self, engine, st, v, node):
        """`raise x` for a dynamic value: x's own exception class if it is an exception (any class), TypeError
        if it is not an exception at all"""
        ln = engine.rel_line(node)
        for cls in [AnyException, AnyBaseException, TypeError] + [c for c in engine.exc_universe() if c is not TypeError]:
            b = st.fork().label("L%d:raise dynamic %s" % (ln, cls.__name__))
            yield b, Raised(cls, ExcObj(cls, info={"dynamic": True, "value": v}))

    def delete(self, engine, st, t):
        if isinstance(t, ast.Subscript) and isinstance(t.slice, ast.Slice) and t.slice.lower is None and \
                t.slice.upper is None and t.slice.step is None:
            res = []
            for st1, o in engine.ev(st, t.value):
                if isinstance(o, Raised):
                    res.append((st1, o))
                elif isinstance(o, Obj) and o.kind == "vlist":
                    st1.heap[(o.oid, "items")] = SVL(VL.nil)        # del l[:]
                    res.append((st1, None))
                else:
                    raise Unsupported("del x[:] on %r" % (o,))
            return res
        if isinstance(t, ast.Subscript) and not isinstance(t.slice, ast.Slice):
            res = []
            for st1, o in engine.ev(st, t.value):
                if isinstance(o, Raised):
                    res.append((st1, o))
                    continue
                for st2, k in engine.ev(st1, t.slice):
                    if isinstance(k, Raised):
                        res.append((st2, k))
                        continue
                    if isinstance(o, Obj) and o.kind == "dict":
                        m, h = self.dget(engine, st2, o)
                        kk = to_val(k) if not isinstance(k, EntryRef) else k.key
                        bad = st2.fork().assume(z3.Not(z3.Select(h, kk))).label("L%d:del KeyError" % engine.rel_line(t))
                        if engine.feasible(bad):
                            res.append((bad, Raised(KeyError, ExcObj(KeyError))))
                        st2.assume(z3.Select(h, kk))
                        engine.dict_put(st2, o, h=z3.Store(h, kk, False))
                        res.append((st2, None))
                    else:
                        raise Unsupported("del on %r" % (o,))
            return res
        if isinstance(t, ast.Attribute):
            res = []
            for st1, o in engine.ev(st, t.value):
                if isinstance(o, Raised):
                    res.append((st1, o))
                elif isinstance(o, Obj):
                    cur = engine.heap_get(st1, o, t.attr)
                    if cur is DELETED:
                        res.append((st1, Raised(AttributeError, ExcObj(AttributeError))))
                    else:
                        st1.heap[(o.oid, t.attr)] = DELETED
                        res.append((st1, None))
                else:
                    raise Unsupported("del attribute of %r" % (o,))
            return res
        raise Unsupported("del form (line %d)" % t.lineno)

    def with_stmt(self, engine, st, cm, optvars, node):
        if isinstance(cm, Obj) and cm.cls in ("Lock", "Condition") and optvars is None:
            # sequential semantics (A-SEQ): acquiring and releasing an uncontended lock has no effect
            self.used.add("threading.%s as a context manager: sequential no-op (A-SEQ)" % cm.cls)
            for r in engine.exec_block(st, node.body):
                yield r
            return
        if isinstance(cm, Obj) and cm.cls == "File" and (optvars is None or isinstance(optvars, ast.Name)):
            # a file object as a context manager: bound to the name, closed on EVERY exit of the block (normal, exception)
            self.used.add("file object as a context manager: __enter__ returns the file, __exit__ closes it on every exit")
            if optvars is not None:
                st.env[optvars.id] = cm
            for st1, out in engine.exec_block(st, node.body):
                st1.heap[(cm.oid, "closed")] = True
                yield st1, out
            return
        raise Unsupported("with %r" % (cm,))

    def contains_sysmodules(self, engine, st, x):
        self.used.add("`name in sys.modules`: an uninterpreted predicate of the name (and of the import epoch: it may change at an import)")
        ep = st.heap.get(("$sys", "epoch"))
        if ep is None:
            return b2v(self.spec.uf["in_sys_modules"](to_val(x)))
        return b2v(self.spec.uf["in_sys_modules_at"](to_val(x), ep.z))

    def repo_dunder(self, engine, o, name):
        import types as _t, inspect as _i
        if isinstance(o, Obj) and isinstance(o.cls, type):
            try:
                raw = _i.getattr_static(o.cls, name)
            except AttributeError:
                return None
            if isinstance(raw, _t.FunctionType) and engine.is_repo_function(raw):
                return raw
        return None

    def contains_obj(self, engine, st, coll, x, node):
        fn = self.repo_dunder(engine, coll, "__contains__")
        if fn is not None:
            return list(engine.call_repo(st, fn, [coll, x], {}, node))
        if coll.kind == "dict":
            m, h = self.dget(engine, st, coll)
            return [(st, b2v(z3.Select(h, to_val(x))))]
        raise Unsupported("in on heap object")

    def call_with_dstar(self, engine, st, f, node):
        """f(*args, **kw) with dynamic args / keywords: only for callables without a contract (apply)"""
        plain = [a for a in node.args if not isinstance(a, ast.Starred)]
        star = [a for a in node.args if isinstance(a, ast.Starred)]
        dstar = [k for k in node.keywords if k.arg is None]
        named = [k for k in node.keywords if k.arg is not None]
        if named or len(dstar) != 1 or len(star) > 1:
            raise Unsupported("call form with ** (line %d)" % node.lineno)
        exprs = plain + [x.value for x in star] + [dstar[0].value]
        for st1, vs in engine.ev_seq(st, exprs):
            if isinstance(vs, Raised):
                yield st1, vs
                continue
            args = vs[:len(plain)]
            starval = vs[len(plain)] if star else ()
            kw = vs[-1]
            if isinstance(f, Obj) and isinstance(f.cls, type):
                raw = self.repo_dunder(engine, f, "__call__")
                if raw is not None:
                    f = BoundMethod(f, raw, "__call__")
            target = f.func if isinstance(f, BoundMethod) else f
            if engine.is_repo_function(target) and isinstance(kw, Obj) and kw.kind == "dict":
                # forwarding f(*args, **kwargs) to a repository function that itself takes (*args, **kwargs): the argument list
                # and the keyword dict are handed over as they are
                import inspect as _insp
                sig = _insp.signature(target)
                var = [p for p in sig.parameters.values() if p.kind == p.VAR_POSITIONAL]
                vkw = [p for p in sig.parameters.values() if p.kind == p.VAR_KEYWORD]
                pos = [p for p in sig.parameters.values() if p.kind in (p.POSITIONAL_ONLY, p.POSITIONAL_OR_KEYWORD)]
                allargs = ([f.recv] if isinstance(f, BoundMethod) else []) + list(args)
                if var and vkw and len(allargs) == len(pos) and isinstance(starval, (VarArgs, SVL, tuple)):
                    rest = starval.vl if isinstance(starval, VarArgs) else (starval if isinstance(starval, SVL) else SVL(to_vl(starval)))
                    for r in engine.call_repo(st1, target, allargs + [VarArgs(rest)], {vkw[0].name: kw}, node):
                        yield r
                    continue
                raise Unsupported("** call of a repository function (line %d)" % node.lineno)
            if not isinstance(f, SVal):
                raise Unsupported("** call of a non-dynamic callable")
            for st2, vl in self.star_items(engine, st1, starval, node):
                if isinstance(vl, Raised):
                    yield st2, vl
                    continue
                for a in reversed(args):
                    vl = VL.cons(to_val(a), vl)
                for r in self.apply_dynamic(engine, st2, f, SVL(vl), node, kwargs=to_val(kw)):
                    yield r

    def star_items(self, engine, st, v, node):
        """the items *v contributes to a call: a tuple's items; for any other value the items its iteration
        yields (an uninterpreted list; iterating a lent object is an operation the protocol sanctions) or
        TypeError if it is not iterable"""
        if isinstance(v, SVL):
            yield st, v.z
            return
        if isinstance(v, (tuple, list)):
            yield st, to_vl(v)
            return
        if not isinstance(v, SVal):
            raise Unsupported("*args of %r" % (v,))
        ln = engine.rel_line(node)
        t = st.fork().assume(Val.is_VTuple(v.z)).label("L%d:*tuple" % ln)
        if engine.feasible(t):
            yield t, Val.titems(v.z)
        o = st.fork().assume(z3.Not(Val.is_VTuple(v.z)))
        if engine.feasible(o):
            self.used.add("*args of a non-tuple: the items its iteration yields (uninterpreted) or TypeError")
            bad = o.fork().label("L%d:*not iterable" % ln)
            yield bad, Raised(TypeError, ExcObj(TypeError))
            o.label("L%d:*iterable" % ln)
            yield o, self.spec.uf["iter_items"](v.z)

    def call_star_symbolic(self, engine, st, f, args, starval, kwargs, node):
        """f(a, b, *rest) where rest is symbolic: a repository function with a *varargs parameter receives it
        there; callables without a contract go through apply"""
        if isinstance(f, RequestMethod):
            for st1, vl in self.star_items(engine, st, starval, node):
                if isinstance(vl, Raised):
                    yield st1, vl
                    continue
                for a in reversed(args):
                    vl = VL.cons(to_val(a), vl)
                for r in self.request_event(engine, st1, f, SVL(vl), kwargs, node):
                    yield r
            return
        target = f.func if isinstance(f, BoundMethod) else f
        if engine.is_repo_function(target):
            import inspect
            sig = inspect.signature(target)
            pos = [p for p in sig.parameters.values() if p.kind in (p.POSITIONAL_ONLY, p.POSITIONAL_OR_KEYWORD)]
            var = [p for p in sig.parameters.values() if p.kind == p.VAR_POSITIONAL]
            allargs = ([f.recv] if isinstance(f, BoundMethod) else []) + list(args)
            if not var and isinstance(starval, SVal) and not kwargs:
                # f(a, *rest) with a dynamic `rest` and a callee without *varargs: `rest` must be an iterable of exactly the missing
                # number of items (TypeError otherwise - also when it is not iterable); the items fill the remaining parameters
                missing = len(pos) - len(allargs)
                z = starval.z
                items = Val.titems(z)
                elems = [fresh("star", Val) for _ in range(max(missing, 0))]
                spine = VL.nil
                for x in reversed(elems):
                    spine = VL.cons(x, spine)
                ok = z3.And(Val.is_VTuple(z), items == spine) if missing >= 0 else z3.BoolVal(False)
                ln = engine.rel_line(node)
                bad = st.fork().assume(z3.Not(z3.And(Val.is_VTuple(z), self.R(engine, st, "vlen", SVL(items)).z == max(missing, 0))
                                              if missing >= 0 else z3.BoolVal(False))).label("L%d:wrong arity / not a tuple" % ln)
                yield bad, Raised(TypeError, ExcObj(TypeError))
                if missing >= 0:
                    good = st.fork().assume(ok).label("L%d:star%d" % (ln, missing))
                    for fn in ("plain", "sized"):
                        self.R(engine, good, fn, starval)       # definitions of the element-wise predicates at the argument tuple
                    for fact in self.spec.spine_facts(engine, good, SVL(spine)):
                        good.assume(fact)
                    self.used.add("*args of a dynamic value: modelled for tuples (other iterables of the right length are not explored)")
                    for r in engine.call_repo(good, target, allargs + [SVal(x) for x in elems], {}, node):
                        yield r
                return
            if not var or len(allargs) < len(pos):
                raise Unsupported("*args call of %s: positional parameters would be filled from the symbolic tuple" % target.__name__)
            if isinstance(starval, SVal):
                raise Unsupported("*args of a dynamic value passed to a contract callee")
            extra = allargs[len(pos):]
            rest = self.vl_append(engine, st, SVL(to_vl(extra)), starval if isinstance(starval, SVL) else SVL(to_vl(starval)))
            for r in engine.call_repo(st, target, allargs[:len(pos)] + [VarArgs(rest)], kwargs, node):
                yield r
            return
        if kwargs:
            raise Unsupported("*args together with keywords")
        for st1, vl in self.star_items(engine, st, starval, node):
            if isinstance(vl, Raised):
                yield st1, vl
                continue
            for a in reversed(args):
                vl = VL.cons(to_val(a), vl)
            for r in self.apply_dynamic(engine, st1, f, SVL(vl), node):
                yield r

    def request_event(self, engine, st, f, argvl, kwargs, node):
        self.used.add("conn.sync_request / async_request on a proxy's connection = one ghost Request event, any result, any exception")
        ln = engine.rel_line(node)
        kw = to_val(tuple(sorted(kwargs.items()))) if kwargs else None
        for cls in [AnyException, AnyBaseException] + list(engine.exc_universe()):
            b = st.fork().label("L%d:request raises %s" % (ln, cls.__name__))
            b.trace.append(("Request", f.name, f.conn.z, argvl.z, "raise", kw))
            yield b, Raised(cls, ExcObj(cls, info={"dynamic": True}))
        res = SVal(fresh("request.result@L%d" % ln, Val))
        engine.type_invariants(st, [res])
        st.trace.append(("Request", f.name, f.conn.z, argvl.z, res.z, kw))
        yield st, res

    def apply_dynamic(self, engine, st, f, argvl, node, kwargs=None):
        """call of a value about which nothing is known (uninterpreted `apply`): appends a Call event, may
        return anything and raise anything; it does not touch the heap locations the engine tracks"""
        self.used.add("apply: call of an unknown callable = one Call event, any result, any exception")
        ln = engine.rel_line(node)
        fv = to_val(f)
        universe = [AnyException, AnyBaseException] + list(engine.exc_universe())
        for cls in universe:
            b = st.fork().label("L%d:call raises %s" % (ln, cls.__name__))
            b.trace.append(("Call", fv, argvl.z, "raise", kwargs))
            yield b, Raised(cls, ExcObj(cls, info={"dynamic": True}))
        res = SVal(fresh("apply.result@L%d" % ln, Val))
        engine.type_invariants(st, [res])
        st.trace.append(("Call", fv, argvl.z, res.z, kwargs))
        yield st, res


class _Deleted(object):
    """value of an instance attribute after `del obj.attr`"""

    def __repr__(self):
        return "<deleted>"


DELETED = _Deleted()


class RequestMethod(object):
    """conn.sync_request / conn.async_request where conn is a proxy's connection (a dynamic value): calling it is
    one ghost Request event (the request itself is Connection.sync_request / async_request's business)"""

    def __init__(self, conn, name):
        self.conn = conn
        self.name = name


class VarArgs(object):
    """marker: the whole *args tuple of a callee, given as one symbolic list"""

    def __init__(self, vl):
        self.vl = vl


class FdVal(SInt):
    """a file descriptor number that remembers which model object it belongs to"""
    __slots__ = ("obj",)

    def __init__(self, z, obj):
        SInt.__init__(self, z)
        self.obj = obj


class _Traceback(object):
    def __repr__(self):
        return "<traceback>"


TB = _Traceback()


class IntText(SStr):
    """str(i) for a symbolic int i: remembers i so that bytes(str(i)) is its decimal rendering"""
    __slots__ = ("intval",)

    def __init__(self, z, intval):
        SStr.__init__(self, z)
        self.intval = intval


_MISSING = object()


class _Snoc(object):
    pass


_SNOC = _Snoc()
