"""Check driver: ./check <property> [--tier quick|thorough]   |   ./check --replay <file>

exit 0  every obligation of the property discharged (or matched by a listed known finding)
exit 1  VIOLATION property=<id> replay=<path>  (an obligation failed: solver `sat`, or a native
        contract failure on the real code)
exit 2  UNDECIDED (solver unknown / timeout and no failing input found)
exit 3  checker error (unsupported construct, stale contract, engine disagreement, tool missing)
"""
import argparse
import hashlib
import importlib
import json
import os
import re
import subprocess
import sys
import time
import traceback

VERIF = os.path.dirname(os.path.dirname(os.path.abspath(__file__)))
REPO = os.environ.get("PYVC_REPO", "/repo")
sys.path.insert(0, REPO)
sys.path.insert(0, VERIF)

import z3  # noqa: E402
from pyvc import engine, specenv, libmodels, store as store_mod, solve, tables, props, ops  # noqa: E402
from pyvc.sorts import WRAP, SORTS, fresh  # noqa: E402

OUT = os.environ.get("PYVC_OUT") or os.path.join(VERIF, "out")
NO_EVIDENCE = False
NATIVE_PY = "/venv/bin/python"


class Kit(object):
    """what a composition (property-level lemma) may use: contract clauses fetched by id"""

    def __init__(self, ex):
        self.ex = ex
        self.z3 = z3
        self.facts = []
        self.used = []

    def fresh(self, name, sort):
        v = WRAP[sort](fresh("K_" + name, SORTS[sort]))
        return v

    def _eval(self, expr, scope):
        st = engine.State()
        v, facts = self.ex.spec.evaluate(self.ex, expr, st, st, dict(scope))
        self.facts.extend(facts)
        t = ops.truth(v) if not isinstance(v, specenv.Sym) or v.kind == "bool" else v
        return v

    def expr(self, expr, scope):
        v = self._eval(expr, scope)
        if isinstance(v, (bool, specenv.Sym)) and (isinstance(v, bool) or v.kind == "bool"):
            return ops._z(ops.truth(v))
        if isinstance(v, int) and not isinstance(v, bool):
            return WRAP["int"](z3.IntVal(v))
        return v

    def beh(self, target, bname):
        return self.ex.store.contracts[target].behaviours[bname]

    def ensures(self, target, bname, clause, bind):
        expr, _ = self.beh(target, bname).ensures[clause]
        self.used.append("%s[%s].ensures:%s" % (target, bname, clause))
        return ops._z(ops.truth(self._eval(expr, bind)))

    def only_when(self, target, bname, exc, bind):
        spec = self.beh(target, bname).raises[exc]
        self.used.append("%s[%s].raises:%s" % (target, bname, exc))
        if not spec.get("only_when"):
            return z3.BoolVal(True)
        return ops._z(ops.truth(self._eval(spec["only_when"], bind)))

    def uses(self, target, bname, clause):
        """record (and check the existence of) a contract clause the composition restates"""
        b = self.beh(target, bname)
        kind, name = clause.split(":", 1)
        if kind == "ensures" and name not in b.ensures:
            raise engine.CheckerError("composition relies on missing clause %s of %s[%s]" % (clause, target, bname))
        self.used.append("%s[%s].%s" % (target, bname, clause))

    def raises_names(self, target, bname):
        return list(self.beh(target, bname).raises)

    def require_no_raises(self, target, bname):
        if self.beh(target, bname).raises:
            raise engine.CheckerError("composition assumes %s[%s] raises nothing" % (target, bname))

    def implication(self, target, bname, bind):
        b = self.beh(target, bname)
        self.used.append("%s[%s].contract" % (target, bname))
        req = [ops._z(ops.truth(self._eval(r, bind))) for r in b.requires]
        ens = [ops._z(ops.truth(self._eval(e, bind))) for e, _ in b.ensures.values()]
        return z3.Implies(z3.And(req) if req else z3.BoolVal(True), z3.And(ens) if ens else z3.BoolVal(True))


def build_executor(plan):
    import rpyc.core.brine as brine
    S = specenv.SpecEnv()
    for m in plan["specs"]:
        mod = importlib.import_module("spec." + m)
        S.load_module(mod)
        if hasattr(mod, "PERM_INVARIANT"):
            S.consts["PERM_INVARIANT"] = mod.PERM_INVARIANT
    S.consts["T"] = tables.from_module(brine) if plan.get("table", "module") == "module" else tables.from_reference()
    import rpyc.core.channel as channel_mod, rpyc.core.stream as stream_mod, errno as errno_mod
    S.consts["C"] = tables.frame_consts_from_module(channel_mod) if plan.get("table", "module") == "module" else \
        tables.frame_consts_from_reference(channel_mod)
    S.consts["ClosedFile"] = stream_mod.ClosedFile
    S.consts["errno"] = errno_mod if "errno_mod" in dir() else __import__("errno")
    import rpyc.core.protocol as protocol_mod, rpyc.core.consts as consts_mod
    S.consts["HANDLERS"] = protocol_mod.Connection._request_handlers()
    import rpyc.version as version_mod
    S.consts["VERSION_STRING"] = version_mod.version_string
    S.consts["VERSION_MAJOR"] = str(version_mod.version[0])
    import builtins as builtins_mod
    S.consts["BUILTINS_NAME"] = builtins_mod.__name__
    S.consts["BUILTINS_MODULE"] = builtins_mod
    S.consts["TRUE"], S.consts["FALSE"] = True, False
    for _k, _v in vars(consts_mod).items():
        if _k.isupper():
            S.consts[_k] = _v
    st = store_mod.Store()
    for m in plan["contracts"]:
        importlib.import_module("contracts." + m).register(st)
    lib = libmodels.Lib(S)
    ex = engine.Executor(st, REPO, S, lib)
    return ex


def file_hash(path):
    return hashlib.sha256(open(path, "rb").read()).hexdigest()[:16]


def run_native(plan, targets, seed, budget, given=None, pid=None):
    """native contract evaluation on the real code, in the repository's interpreter"""
    job = {"repo": REPO, "contracts": plan["contracts"], "spec_modules": plan["specs"], "table": plan.get("table", "module"),
           "seed": seed, "budget": budget, "property": pid,
           "targets": [[t, b, given] if given else [t, b] for t, b in targets]}
    os.makedirs(OUT, exist_ok=True)
    jp = os.path.join(OUT, "native-job-%d-%d.json" % (os.getpid(), int(time.time() * 1000) % 100000))
    json.dump(job, open(jp, "w"))
    try:
        p = subprocess.run([NATIVE_PY, "-m", "pyvc.nativecheck", jp], capture_output=True, text=True, cwd=VERIF,
                           timeout=1800)
        if p.returncode != 0:
            return [{"target": t, "behaviour": b, "error": (p.stderr or "")[-800:]} for t, b in targets]
        return json.loads(p.stdout)
    finally:
        try:
            os.unlink(jp)
        except OSError:
            pass


def load_known():
    path = os.path.join(VERIF, "KNOWN_FINDINGS.jsonl")
    out = []
    if os.path.exists(path):
        for line in open(path):
            line = line.strip()
            if line and not line.startswith("#") and line.startswith("{"):
                k = json.loads(line)
                out.append(k)
                for other in k.get("also", []):        # the same defect violates these properties too
                    out.append(dict(k, property=other))
    return out


def write_replay(pid, oid, target, bname, detail):
    d = os.path.join(OUT, "replay")
    os.makedirs(d, exist_ok=True)
    name = re.sub(r"[^A-Za-z0-9_.-]+", "_", "%s-%s" % (pid, oid))[:150] + ".json"
    path = os.path.join(d, name)
    rec = {"property": pid, "obligation": oid, "target": target, "behaviour": bname, "repo": REPO}
    rec.update(detail)
    json.dump(rec, open(path, "w"), indent=1, default=str)
    return path


def check_property(pid, tier, seed):
    t_start = time.time()
    plan = props.PLANS[pid]
    timeout = 20 if tier == "quick" else 60
    ex = build_executor(plan)
    errors = []          # checker errors (exit 3)
    unsupported = []     # (target, behaviour, reason)
    functions = []
    assumed_behaviours = []
    deferred_behaviours = []
    for target in plan["targets"]:
        c = ex.store.contracts.get(target)
        if c is None:
            errors.append("no contract for %s" % target)
            continue
        if c.inline or c.trusted:
            continue
        try:
            fobj, node, mod, src = ex.locate(c.file, c.qualname)
            seg = "\n".join(src.splitlines()[node.lineno - 1:node.end_lineno])
            functions.append({"function": target, "line": node.lineno, "tier": c.tier,
                              "source_sha256": hashlib.sha256(seg.encode()).hexdigest()[:16],
                              "behaviours": sorted(c.behaviours)})
        except engine.CheckerError as e:
            errors.append(str(e))
            continue
        for b in c.behaviours:
            if c.behaviours[b].trusted:
                assumed_behaviours.append("%s[%s]" % (target, b))
                continue
            if c.behaviours[b].thorough_only and tier == "quick":
                deferred_behaviours.append("%s[%s]" % (target, b))
                continue
            before = len(ex.obligations)
            try:
                ex.verify(c, b)
            except engine.Unsupported as e:
                del ex.obligations[before:]
                unsupported.append((target, b, str(e)))
            except engine.CheckerError as e:
                del ex.obligations[before:]
                errors.append("%s[%s]: %s" % (target, b, e))
            except Exception as e:
                del ex.obligations[before:]
                errors.append("%s[%s]: engine crashed: %s" % (target, b, traceback.format_exc()[-600:]))
    obligations = [o for o in ex.obligations if pid in o.props]
    other = len(ex.obligations) - len(obligations)
    # induction obligations of the list lemmas, property-level compositions
    for oid, hyps, goal in ex.spec.lemma_obligations(ex):
        if oid.split(":")[1].split("/")[0] in plan.get("lemmas", []):
            obligations.append(engine.Obligation(oid, hyps, goal, [pid], "lemma", meta={"function": "spec", "behaviour": ""}))
    comp_used = {}
    for name in plan.get("compositions", []):
        fn, cprops = ex.store.compositions[name]
        K = Kit(ex)
        try:
            for label, hyps, goal in fn(K):
                obligations.append(engine.Obligation("lemma:%s/%s" % (name, label), list(hyps) + K.facts, goal, [pid],
                                                     "composition", meta={"function": "composition", "behaviour": ""}))
            comp_used[name] = K.used
        except (engine.CheckerError, engine.Unsupported, KeyError) as e:
            errors.append("composition %s: %r" % (name, e))
    # finite (exhaustive enumeration) checks
    finite_results = []
    for fname in plan.get("finite", []):
        mod = importlib.import_module("pyvc.finite")
        finite_results.extend(getattr(mod, fname)(REPO))
    # bounded stand-ins for functions outside the subset (labelled bounded, never counted as proved)
    bounded_runs = []
    for fname in plan.get("bounded", []):
        mod = importlib.import_module("pyvc.finite")
        res = getattr(mod, fname)(REPO)
        target, bound = mod.BOUNDS[fname]
        bounded_runs.append({"function": target, "bound": bound, "cases": sum(r.get("cases", 0) for r in res),
                             "failures": [r for r in res if not r["ok"]]})
    # ---- discharge -------------------------------------------------------------------------------
    smt_dir = os.path.join(OUT, "smt", pid)
    known_all = [k for k in load_known() if k.get("property") == pid and k.get("status", "known") == "known"]
    # obligations listed under a recorded finding: a short budget is enough (`unsat` = the defect is gone; `sat` or
    # no answer = still open, confirmed below by replaying the recorded witness on the real code)
    is_known = [match_known(known_all, o.id, None) is not None for o in obligations]
    normal = [o for o, k in zip(obligations, is_known) if not k]
    listed = [o for o, k in zip(obligations, is_known) if k]
    res_n = solve.discharge_all(normal, smt_dir, timeout=timeout, jobs=16, all_solvers=(tier == "thorough"))
    res_l = solve.discharge_all(listed, smt_dir, timeout=3, jobs=16, order=("z3-5.1",)) if listed else []
    for r in res_l:
        if r["verdict"] == "unknown":
            r["verdict"] = "sat"            # treated as still failing; the witness replay decides what is reported
            r["by"] = "undecided-within-budget(listed under a known finding)"
    it_n, it_l = iter(res_n), iter(res_l)
    results = [next(it_l) if k else next(it_n) for k in is_known]
    by_backend = {}
    solver_s = 0.0
    failed, undecided = [], []
    timings = []
    for o, r in zip(obligations, results):
        for sname, (ans, dt) in r["times"].items():
            solver_s += dt
        timings.append((max(dt for _, dt in r["times"].values()), o.id))
        if r["verdict"] == "unsat":
            by_backend[r["by"]] = by_backend.get(r["by"], 0) + 1
        elif r["verdict"] == "sat":
            failed.append((o, r))
        elif r["verdict"] == "disagree":
            errors.append("solvers disagree on %s: %s" % (o.id, r["times"]))
        else:
            undecided.append((o, r))
    # vacuity guard: no assumed contract / invariant / precondition may make a path infeasible
    cone = {t for t in plan["targets"]}
    canaries = [c for c in ex.canaries if c.meta.get("function") in cone]
    bad_canaries, n_canaries = solve.check_canaries(canaries, os.path.join(smt_dir, "canary"), timeout=5)
    for cid, why in bad_canaries:
        errors.append("contradictory assumption at %s: %s" % (cid, why))
    n_finite_ok = sum(1 for f in finite_results if f["ok"])
    # ---- native runs: counterexamples for failed obligations, stand-in for unsupported functions, sanity
    known = [k for k in load_known() if k.get("property") == pid and k.get("status", "known") == "known"]
    violations = []      # (oid, replay path, has_input)
    known_hits = []
    native_targets = list(plan.get("native_focus", []))
    for o, r in failed:
        tb = (o.meta.get("function"), o.meta.get("behaviour"))
        if tb[0] in ex.store.contracts and tb not in native_targets:
            native_targets.append(tb)
    for t, b, why in unsupported:
        if (t, b) not in native_targets:
            native_targets.append((t, b))
    budget = 400 if tier == "quick" else 4000
    nat = run_native(plan, native_targets, seed, budget, pid=pid) if native_targets else []
    nat_by = {(r["target"], r["behaviour"]): r for r in nat}
    native_fail_reported = set()
    models_asked = [0]
    stale_invariants, triage_notes = triage_loop_invariants(plan, pid, ex, failed, nat_by, known, smt_dir, timeout)
    for o, r in failed:
        tb = (o.meta.get("function"), o.meta.get("behaviour"))
        nr = nat_by.get(tb)
        if o.id in stale_invariants:
            errors.append("stale loop invariant %s: %s" % (o.id, stale_invariants[o.id]))
            continue
        detail = {"clause_kind": o.kind, "note": o.note, "path": o.meta.get("labels"), "solver": r["times"],
                  "smt_file": r["file"]}
        k0 = match_known(known, o.id, None)
        if k0 is None and models_asked[0] < 3:
            models_asked[0] += 1
            detail["solver_model"] = solve.get_model(r["file"], [], 10)
        witness = None
        if nr and nr.get("failures"):
            witness = nr["failures"][0]
            detail["native_failure"] = witness
            native_fail_reported.add(tb)
        k = match_known(known, o.id, witness)
        if k:
            known_hits.append((k, o.id))
            continue
        path = write_replay(pid, o.id, tb[0], tb[1], detail)
        violations.append((o.id, path, witness is not None))
    # native failures not explained by a failed obligation: still violations of the contract on the real code
    for tb, nr in nat_by.items():
        if nr.get("error"):
            errors.append("native run failed for %s[%s]: %s" % (tb[0], tb[1], nr["error"][-300:]))
            continue
        if nr.get("errors"):
            errors.append("native harness errors for %s[%s]: %s" % (tb[0], tb[1], str(nr["errors"][0])[-300:]))
        if nr.get("failures") and tb not in native_fail_reported:
            w = nr["failures"][0]
            k = match_known(known, "native:%s[%s]/%s" % (tb[0].split("::")[1], tb[1], w["clause"]), w)
            if k:
                known_hits.append((k, "native:%s" % tb[0]))
                continue
            oid = "native:%s[%s]/%s" % (tb[0].split("::")[1], tb[1], w["clause"])
            path = write_replay(pid, oid, tb[0], tb[1], {"native_failure": w, "note":
                                "the executable contract fails on the real function for this input (bounded native run)"})
            violations.append((oid, path, True))
    # functions outside the subset whose bounded stand-in found nothing: checker error (never a proof)
    bounded = []
    for t, b, why in unsupported:
        nr = nat_by.get((t, b), {})
        bounded.append({"function": t, "behaviour": b, "reason": why, "bounded_inputs": nr.get("satisfying", 0),
                        "failures": nr.get("n_failures", 0)})
        if not nr.get("failures"):
            errors.append("unsupported construct in %s[%s]: %s (bounded stand-in: %d inputs, no failure)" % (
                t, b, why, nr.get("satisfying", 0)))
    # vacuity guards
    vac = []
    if not obligations:
        errors.append("zero obligations generated for %s" % pid)
    for tb in plan.get("native_focus", []):
        nr = nat_by.get(tb, {})
        vac.append({"behaviour": "%s[%s]" % tb, "inputs_satisfying_requires": nr.get("satisfying", 0)})
        if not nr.get("error") and nr.get("satisfying", 0) == 0:
            errors.append("vacuity: no native input satisfies the preconditions of %s[%s]" % tb)
    for br in bounded_runs:
        for f in br["failures"]:
            if f["id"].endswith("all-cases"):
                continue
            path = write_replay(pid, f["id"], br["function"], "", {"bounded": f, "bound": br["bound"]})
            violations.append(("%s (%s)" % (f["id"], f["detail"]), path, True))
    # failing enumerated cases: listed under a recorded finding, or violations (the enumeration itself is the failing input)
    for f in [f for f in finite_results if not f["ok"]]:
        kf = match_known(known, f["id"], None)
        if kf is not None:
            known_hits.append((kf, f["id"]))
            continue
        path = write_replay(pid, f["id"], "finite", "", {"finite": f})
        violations.append(("%s (%s)" % (f["id"], f["detail"]), path, True))
    # ---- report --------------------------------------------------------------------------------
    # each matched known finding: its recorded witness must still fail on this tree (scenario replay); if it does
    # not, the failing obligation is something else and is reported as a violation
    reported = set()
    for k, oid in known_hits:
        kid = k.get("id", k.get("what"))
        if kid not in reported and k.get("replay"):
            rp = subprocess.run([NATIVE_PY, os.path.join(VERIF, k["replay"]), REPO], capture_output=True, text=True, timeout=300)
            k["_reproduced"] = (rp.returncode == 1)
            k["_replay_output"] = (rp.stdout or "")[-400:]
        reported.add(kid)
    for k, oid in known_hits:
        if k.get("replay") and not k.get("_reproduced"):
            path = write_replay(pid, oid, "", "", {"note": "obligation listed under known finding %s fails, but the recorded witness "
                                                   "no longer reproduces: %s" % (k.get("id"), k.get("_replay_output"))})
            violations.append((oid, path, False))
    for kid in sorted(reported):
        k = [x for x, _ in known_hits if x.get("id", x.get("what")) == kid][0]
        if not k.get("replay") or k.get("_reproduced"):
            print("KNOWN-FINDING: property=%s %s" % (pid, k.get("what", kid)))
    for oid, path, has_input in violations:
        print("VIOLATION property=%s replay=%s%s" % (pid, path, "" if has_input else " no-failing-input-found"))
        print("  failed obligation: %s" % oid)
    for o, r in undecided:
        print("UNDECIDED obligation=%s %s" % (o.id, r["times"]))
    for e in errors:
        print("CHECKER-ERROR %s" % e)
    # obligations that fail under a RECORDED finding (confirmed by its replay on this run) are reported separately: they are
    # not part of what this run claims to have proved
    known_oids = [oid for k, oid in known_hits if (not k.get("replay") or k.get("_reproduced")) and not str(oid).startswith("native:")]
    n_obl = len(obligations) + len(finite_results) - len(known_oids)
    n_dis = sum(by_backend.values()) + n_finite_ok
    timings.sort(reverse=True)
    wall = time.time() - t_start
    level = "proof"
    samples = []
    for o in obligations[:: max(1, len(obligations) // 6)][:6]:
        samples.append({"obligation": o.id, "kind": o.kind, "hypotheses": len(o.hyps),
                        "goal": str(o.goal)[:300], "path": o.meta.get("labels")})
    evidence = {
        "property_id": pid, "tier": tier, "seed": seed, "level": level, "wall_s": round(wall, 2),
        "violations": len(violations),
        "coverage": {
            "obligations": n_obl, "discharged": n_dis,
            "obligations_failing_under_recorded_findings": {"count": len(known_oids), "not_counted_above": True,
                                                           "findings": sorted({k.get("id", "?") for k, _ in known_hits}),
                                                           "sample": sorted(set(known_oids))[:5]},
            "checker_cmd": "./check %s --tier %s   (pyvc VC generator over the AST of %s; back ends %s)" % (
                pid, tier, REPO, ", ".join(sorted(by_backend)) or "none"),
            "trusted_base": sorted(set(plan.get("assumptions", [])) | {"library model: " + u for u in ex.lib.used}),
            "samples": samples,
            "functions_under_contract": functions,
            "paths_explored": sum(n for _, _, n in ex.paths),
            "discharged_by_backend": by_backend,
            "finite_checks": {"total": len(finite_results), "ok": n_finite_ok, "exhaustive": True} if finite_results else None,
            "solver_seconds": round(solver_s, 2),
            "slowest_queries": [{"s": round(s, 2), "obligation": i} for s, i in timings[:5]],
            "obligations_of_other_properties_in_cone_not_counted": other,
            "undecided": [o.id for o, _ in undecided],
            "inlined_helpers": sorted(ex.inlined),
            "assumed_contracts_used": sorted({"%s[%s]" % tb for tb in ex.used_callee_clauses
                                              if ex.store.contracts[tb[0]].trusted or ex.store.contracts[tb[0]].behaviours[tb[1]].trusted}
                                             | set(assumed_behaviours)),
            "behaviours_left_to_the_thorough_tier": deferred_behaviours,
            "lemmas_used": sorted(ex.used_lemmas),
            "composition_hypotheses": comp_used,
            "bounded_stand_ins": bounded + [{"function": b["function"], "bound": b["bound"], "cases_run": b["cases"],
                                             "failures": len([f for f in b["failures"] if not f["id"].endswith("all-cases")]),
                                             "status": "BOUNDED - not a proof"} for b in bounded_runs],
            "native_runs": [{"behaviour": "%s[%s]" % (r.get("target"), r.get("behaviour")), "inputs": r.get("tried"),
                             "satisfying_requires": r.get("satisfying"), "failures": r.get("n_failures", 0)} for r in nat],
            "vacuity_guards": {"requires_satisfied_natively": vac, "canaries": n_canaries,
                               "contradictory": [c for c, _ in bad_canaries]},
            "known_findings_matched": [k.get("what") for k, _ in known_hits],
            "checker_errors": errors,
            "source_files": {f: file_hash(os.path.join(REPO, f) if not f.startswith("@verif/") else os.path.join(VERIF, f[7:]))
                             for f in sorted({t.split("::")[0] for t in plan["targets"]})},
            "design_ref": plan.get("design_ref"),
        },
        "assumptions": plan.get("assumptions", []),
    }
    if not NO_EVIDENCE:
        os.makedirs(os.path.join(VERIF, "evidence"), exist_ok=True)
        json.dump(evidence, open(os.path.join(VERIF, "evidence", "%s.json" % pid), "w"), indent=1, default=str)
    print("%s: %d obligations, %d discharged (%s), %d violation(s), %d undecided, %d checker error(s), %.1fs" % (
        pid, n_obl, n_dis, by_backend, len(violations), len(undecided), len(errors), wall))
    if violations:
        return 1
    if errors:
        return 3
    if undecided:
        return 2
    return 0


UNROLL = 3


def triage_loop_invariants(plan, pid, ex, failed, nat_by, known, smt_dir, timeout):
    """A loop invariant is an auxiliary annotation of the PROOF, not a clause of the property: when the only obligations of a
    function that fail are `inv-init` / `inv-keep` of loops whose contract is a plain invariant, and the native run of the
    executable contract found no failing input either, the function is re-executed with those loops UNROLLED (up to UNROLL
    iterations, no invariant used) and its own clauses are checked on those real paths.  A clause that fails there is a
    violation (reported under its own name).  If every clause holds on every execution of up to UNROLL iterations, the
    invariant no longer fits the loop (the loop was restructured): that is a stale contract - a checker error, exit 3 -
    not a violation of the property.  Returns ({obligation id: reason}, extra failed (obligation, result) pairs)."""
    groups = {}
    for o, r in failed:
        groups.setdefault((o.meta.get("function"), o.meta.get("behaviour")), []).append(o)
    stale, extra = {}, []
    for tb, obs in groups.items():
        c = ex.store.contracts.get(tb[0])
        if c is None or tb[1] not in c.behaviours:
            continue
        if any(match_known(known, o.id, None) for o in obs):
            continue
        beh = c.behaviours[tb[1]]
        loops = beh.loops if beh.loops is not None else c.loops
        plain = {k for k, lc in loops.items() if engine.Executor.plain_loop(lc)}
        ok, n_inv = True, 0
        for o in obs:
            m = re.search(r"/inv-(init|keep|body-events):\d+@loop(\d+)", o.id)
            if o.kind == "inv" and m and int(m.group(2)) in plain:
                n_inv += 1
            elif not any(("loop%d" % k) in (o.meta.get("labels") or []) for k in plain):
                # a clause failing on a path that never went through a cut loop does not depend on any invariant
                ok = False
        ok = ok and n_inv > 0
        nr = nat_by.get(tb) or {}
        if not ok or nr.get("failures") or nr.get("error"):
            continue
        ex2 = build_executor(plan)
        ex2.unroll_depth = UNROLL
        try:
            ex2.verify(c, tb[1])
        except (engine.Unsupported, engine.CheckerError):
            continue
        except Exception:
            continue
        obl2 = [o for o in ex2.obligations if pid in o.props]
        if not obl2:
            continue
        for o in obl2:
            o.id = o.id + "(loops unrolled <=%d)" % UNROLL
        res2 = solve.discharge_all(obl2, os.path.join(smt_dir, "unrolled"), timeout=timeout, jobs=16)
        bad = [(o, r) for o, r in zip(obl2, res2) if r["verdict"] == "sat"]
        if bad:
            extra.extend(bad)          # real paths, no invariant: the clause itself fails
            continue
        n_unknown = sum(1 for r in res2 if r["verdict"] != "unsat")
        for o in obs:
            stale[o.id] = ("the invariant does not hold for the loop as it is written now, but all %d clause obligations of %s[%s] hold on "
                           "every execution with at most %d iterations (loops unrolled, no invariant; %d paths needing more iterations "
                           "cut, %d undecided) and the native run found no failing input: the loop contract needs re-fitting, the property "
                           "is not shown violated" % (len(obl2), tb[0].split("::")[-1], tb[1], UNROLL, ex2.unroll_cut, n_unknown))
    failed.extend(extra)
    return stale, extra


def match_known(known, oid, witness):
    for k in known:
        if re.search(k["obligation"], oid):
            return k
    return None


def replay(path):
    rec = json.load(open(path))
    pid = rec["property"]
    plan = props.PLANS[pid]
    w = rec.get("native_failure")
    if not w or not w.get("inputs_pickle"):
        print("replay file %s carries no concrete input (obligation %s); solver output is inside the file" % (
            path, rec.get("obligation")))
        return 0
    res = run_native(plan, [(rec["target"], rec["behaviour"])], 0, 1, given=w, pid=pid)
    r = res[0]
    if r.get("error"):
        print("replay error: %s" % r["error"][-500:])
        return 3
    if r.get("failures"):
        f = r["failures"][0]
        print("REPRODUCED on %s: %s[%s] %s\n  inputs: %s\n  expected: %s\n  observed: %s" % (
            REPO, rec["target"], rec["behaviour"], f["clause"], f["inputs"], f.get("expected"), f.get("observed")))
        return 1
    print("not reproduced on %s (%d input(s) satisfied the precondition)" % (REPO, r.get("satisfying", 0)))
    return 0


def main():
    ap = argparse.ArgumentParser()
    ap.add_argument("property", nargs="?")
    ap.add_argument("--tier", default=os.environ.get("VERIF_TIER", "quick"))
    ap.add_argument("--replay")
    ap.add_argument("--no-evidence", action="store_true", help="self-test runs against scratch copies do not rewrite evidence")
    a = ap.parse_args()
    global NO_EVIDENCE
    NO_EVIDENCE = a.no_evidence
    seed = int(os.environ.get("VERIF_SEED", "0") or 0)
    if a.replay:
        sys.exit(replay(a.replay))
    if a.tier not in ("quick", "thorough"):
        a.tier = "quick"
    try:
        sys.exit(check_property(a.property, a.tier, seed))
    except Exception:
        traceback.print_exc()
        print("CHECKER-ERROR crashed")
        sys.exit(3)


if __name__ == "__main__":
    main()
