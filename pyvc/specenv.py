"""Spec environment: evaluation of contract expressions and spec functions to z3.

Spec functions are ordinary Python functions in /verif/spec/*.py written in a small subset
(assignments, if/return, calls, arithmetic, comparisons).  The SAME source is
  (a) compiled here to z3 (non-recursive ones by path merging into ite; recursive ones as
      uninterpreted functions whose definition is unfolded at the terms in scope), and
  (b) imported and run natively for replay / bounded checks.
Primitives (`isbytes`, `items`, `be32`, `utf8`, ...) have a symbolic implementation here and
a native one in spec/native.py.
"""
import ast
import inspect
import z3

from .sorts import (SReal, Real, Sym, SInt, SBool, SBytes, SStr, SVal, SVL, SF64, Val, VL, Bytes, Int, Bool, F64, SORTS,
                    WRAP, seq_lit, fresh, typeof, typeof_axiom, wrap_sort, TYPE_ID)
from . import ops
from .ops import Unsupported, truth, b2v, i2v, zint, zbool, zseq, to_val, to_vl, TRUE, FALSE, is_sym


class SFset(Sym):
    """static kind: a frozenset whose items (in canonical order) are the VL term"""
    kind = "fset"

    def as_val(self):
        return Val.VFset(self.z)


class SSlice(Sym):
    """static kind: a slice; z is the Val term (VSlice)"""
    kind = "slice"

    def as_val(self):
        return self.z


class SComplex(Sym):
    """static kind: a complex number; z is the Val term (VComplex)"""
    kind = "complex"

    def as_val(self):
        return self.z


class SType(Sym):
    """type(x) of a dynamic value: an Int type id"""
    kind = "type"

    def as_val(self):
        return Val.VRef(-1 - self.z)       # the class object of a dynamic value: a heap object named by its type id


WRAP["fset"] = SFset
WRAP["slice"] = SSlice
WRAP["complex"] = SComplex
SORTS["fset"] = VL
SORTS["slice"] = Val
SORTS["complex"] = Val

_to_val_orig = ops.to_val


def to_val_ext(x):
    if isinstance(x, SFset):
        return Val.VFset(x.z)
    if isinstance(x, (SSlice, SComplex)):
        return x.z
    if isinstance(x, SType):
        return Val.VRef(-1 - x.z)       # the class object of a dynamic value: a heap object named by its type id
    return _to_val_orig(x)


ops.to_val = to_val_ext
to_val = to_val_ext


class RecSpec(object):
    def __init__(self, name, fn, argsorts, retsort, post=None):
        self.post = post
        self.name = name
        self.fn = fn
        self.argsorts = argsorts
        self.retsort = retsort
        self.z = z3.Function(name, *([SORTS[s] for s in argsorts] + [SORTS[retsort]]))
        self.node = None


class SpecEnv(object):
    def __init__(self):
        self.funcs = {}         # name -> python function (plain spec, merged to ite)
        self.recs = {}          # name -> RecSpec
        self.lemmas = {}        # name -> python function (statement), proved by induction
        self.consts = {}        # name -> value available in every spec expression
        self.prims = {}         # name -> symbolic primitive  f(ctx, *args) -> value
        self.sources = {}
        self.unfold_cache = {}
        self.expr_cache = {}
        self.facts_sink = None
        self.depth = 0
        self.max_unfold = 2
        self.exc_names = {}
        self.missing_event_notes = []
        self.revealed = set()
        self._install_prims()

    # -- registration -------------------------------------------------------------------------
    def load_module(self, mod):
        for name, fn in vars(mod).items():
            if getattr(fn, "_spec_kind", None) == "plain":
                self.funcs[name] = fn
            elif getattr(fn, "_spec_kind", None) == "lemma":
                self.lemmas[name] = fn
            elif getattr(fn, "_spec_kind", None) == "rec":
                self.recs[name] = RecSpec(name, fn, fn._spec_args, fn._spec_ret, getattr(fn, '_spec_post', None))
        for name, v in getattr(mod, "SPEC_CONSTS", {}).items():
            self.consts[name] = v

    def fn_node(self, fn):
        if fn not in self.sources:
            src = inspect.getsource(fn)
            import textwrap
            node = ast.parse(textwrap.dedent(src)).body[0]
            self.sources[fn] = node
        return self.sources[fn]

    def exc_class(self, name, mod):
        import builtins
        if name in self.exc_names:
            return self.exc_names[name]
        if "." in name:
            m, n = name.rsplit(".", 1)
            return getattr(__import__(m, fromlist=[n]), n)
        if mod is not None and hasattr(mod, name):
            return getattr(mod, name)
        return getattr(builtins, name)

    def eval_const(self, name):
        return self.consts[name]

    # -- facts --------------------------------------------------------------------------------
    def fact(self, z):
        if self.facts_sink is not None:
            self.facts_sink.append(z)

    def val_wf(self, v):
        return typeof_axiom(v)

    def perm_facts(self, engine, st, p, l):
        """facts about a permutation p of the list l: every predicate that is a conjunction over
        the elements (and the length) agrees on both; both have the same canonical form"""
        facts = []
        for name in self.consts.get("PERM_INVARIANT", []):
            v, fs = self.evaluate(engine, "%s(p) == %s(l)" % (name, name), st, st, {"p": p, "l": l})
            facts.extend(fs)
            facts.append(ops._z(truth(v)))
        facts.append(self.uf["canon"](p.z) == self.uf["canon"](l.z))
        return facts

    def spine_facts(self, engine, st, l):
        """unfoldings of the element-wise list predicates at a list with an explicit spine"""
        facts = []
        for name in self.consts.get("PERM_INVARIANT", []):
            if name in self.recs:
                v, fs = self.evaluate(engine, "%s(l)" % name, st, st, {"l": l})
                facts.extend(fs)
        return facts

    def canon_facts(self, engine, st, c, l):
        """c = canon(l): canonical, and its elements are elements of l (duplicates collapse), so every
        predicate that is a conjunction over the elements carries over from l to c"""
        facts = [self.uf["canon"](c.z) == c.z]
        v, fs = self.evaluate(engine, "vlen(c) <= vlen(l)", st, st, {"c": c, "l": l})
        facts.extend(fs)
        facts.append(ops._z(truth(v)))
        for name in self.consts.get("PERM_INVARIANT", []):
            if name == "vlen":
                continue
            v, fs = self.evaluate(engine, "implies(%s(l), %s(c))" % (name, name), st, st, {"c": c, "l": l})
            facts.extend(fs)
            facts.append(ops._z(truth(v)))
        return facts

    def quick_feasible(self, pc):
        """cheap pruning: only syntactic (a conjunct simplified to false)"""
        if not pc:
            return True
        last = pc[-1]
        return not z3.is_false(z3.simplify(last))

    # -- entry points -------------------------------------------------------------------------
    def evaluate(self, engine, expr, st, pre, scope):
        """-> (value, facts)"""
        try:
            return self._evaluate(engine, expr, st, pre, scope)
        except IndexError:
            # the clause talks about a ghost event (a call, a delegated call) that did not happen on this path:
            # the clause is false there
            self.missing_event_notes.append("%r refers to a ghost event that does not exist (trace: %s)" % (
                expr, [e[:2] for e in st.trace]))
            return False, []

    def _evaluate(self, engine, expr, st, pre, scope):
        node = self.expr_cache.get(expr)
        if node is None:
            node = ast.parse(expr.strip(), mode="eval").body
            self.expr_cache[expr] = node
        saved = self.facts_sink
        self.facts_sink = []
        try:
            ctx = Ctx(self, engine, st, pre, scope)
            v = ctx.ev(node)
            facts = self.facts_sink
        except Unsupported as e:
            raise Unsupported("in spec expression %r: %s" % (expr, e))
        finally:
            self.facts_sink = saved
        return v, facts

    def is_lemma_use(self, expr):
        node = ast.parse(expr.strip(), mode="eval").body
        return isinstance(node, ast.Call) and isinstance(node.func, ast.Name) and node.func.id in self.lemmas

    def lemma_obligations(self, engine):
        """[(id, hyps, goal)]: base and step of each lemma's structural induction"""
        out = []
        for name, fn in sorted(self.lemmas.items()):
            args = {a: wrap_as(fresh("L_" + a, SORTS[srt]), srt) for a, srt in fn._spec_args}
            ind = fn._spec_induct
            order = [a for a, _ in fn._spec_args]
            h = SVal(fresh("L_h", Val))
            t = SVL(fresh("L_t", VL))
            base = dict(args)
            base[ind] = SVL(VL.nil)
            step = dict(args)
            step[ind] = SVL(VL.cons(h.z, t.z))
            ih = dict(args)
            ih[ind] = t
            st = engine_state()
            for label, scope, hyp_scope in (("base", base, None), ("step", step, ih)):
                hyps = []
                if hyp_scope is not None:
                    v, facts = self.evaluate(engine, "%s(%s)" % (name, ", ".join(order)), st, st, hyp_scope)
                    hyps.extend(facts)
                    hyps.append(ops._z(truth(v)))
                v, facts = self.evaluate(engine, "%s(%s)" % (name, ", ".join(order)), st, st, scope)
                hyps.extend(facts)
                out.append(("lemma:%s/%s" % (name, label), hyps, ops._z(truth(v))))
        return out

    def evaluate_bool(self, engine, expr, st, pre, scope):
        v, facts = self.evaluate(engine, expr, st, pre, scope)
        z = truth(v)
        if isinstance(z, bool):
            z = z3.BoolVal(z)
        return z, facts

    # -- recursive spec functions -------------------------------------------------------------
    def rec_app(self, ctx, rs, args):
        zargs = [z3.simplify(self.to_sort(a, s)) for a, s in zip(args, rs.argsorts)]
        app = rs.z(*zargs)
        if rs.post:
            # a fact about every application, proved separately by structural induction (lemma `recpost:<name>`)
            names = [a.arg for a in self.fn_node(rs.fn).args.args]
            sc = dict(zip(names, [wrap_as(z, s) for z, s in zip(zargs, rs.argsorts)]))
            sc["result"] = wrap_as(app, rs.retsort)
            d = self.depth
            self.depth = self.max_unfold + 1
            try:
                pv = Ctx(self, ctx.engine, ctx.st, ctx.pre, sc).ev(ast.parse(rs.post, mode="eval").body)
            finally:
                self.depth = d
            self.fact(ops._z(truth(pv)))
        if getattr(rs.fn, "_spec_opaque", False) and rs.name not in self.revealed:
            return wrap_as(app, rs.retsort)
        if self.depth < self.max_unfold or (self.depth < 12 and self.concrete_spine(zargs)):
            key = (app.sexpr(), self.depth)
            if key not in self.unfold_cache:
                self.depth += 1
                sink = self.facts_sink
                self.facts_sink = []
                try:
                    params = [wrap_as(z, s) for z, s in zip(zargs, rs.argsorts)]
                    body = self.run_function(ctx, rs.fn, params)
                    inner = self.facts_sink
                finally:
                    self.facts_sink = sink
                    self.depth -= 1
                # the definition as guarded equations, one per leaf of the body's case analysis (the sequence
                # solvers handle `c => f(x) == leaf` far better than `f(x) == ite(c, leaf, ...)`)
                defs = [z3.Implies(g, app == leaf) if g is not None else app == leaf
                        for g, leaf in ite_leaves(self.to_sort(body, rs.retsort))]
                self.unfold_cache[key] = defs + inner
            for f in self.unfold_cache[key]:
                self.fact(f)
        return wrap_as(app, rs.retsort)

    def concrete_spine(self, zargs):
        """some list argument is syntactically nil / cons(...): unfolding is structurally bounded"""
        for z in zargs:
            if z.sort() == VL:
                zs = z3.simplify(z)
                if z3.is_app(zs) and zs.decl().name() in ("cons", "nil"):
                    return True
            if z.sort() == Val:
                zs = z3.simplify(z)
                if z3.is_app(zs) and zs.decl().name() in ("VTuple", "VSlice", "VFset") and self.depth < 4:
                    return True
                if z3.is_app(zs) and zs.decl().name() in ("VNone", "VNotImpl", "VEllipsis", "VBool", "VInt", "VFloat",
                                                            "VComplex", "VBytes", "VStr", "VRef") and self.depth < 8:
                    return True      # an explicit constructor: the case analysis of the definition collapses
        return False

    def to_sort(self, v, sort):
        if sort == "int":
            return zint(v)
        if sort == "real":
            return ops.zreal(v)
        if sort == "bool":
            t = truth(v)
            return z3.BoolVal(t) if isinstance(t, bool) else t
        if sort in ("bytes", "str"):
            return zseq(v)
        if sort == "val":
            return to_val(v)
        if sort in ("vl", "fset"):
            if isinstance(v, (SVL, SFset)):
                return v.z
            if isinstance(v, (tuple, list)):
                return to_vl(v)
        if sort == "f64" and isinstance(v, SF64):
            return v.z
        if sort in ("slice", "complex") and isinstance(v, (SSlice, SComplex, SVal)):
            return v.z
        raise Unsupported("cannot convert %r to sort %s" % (v, sort))

    def run_function(self, ctx, fn, args):
        node = self.fn_node(fn)
        names = [a.arg for a in node.args.args]
        if len(names) != len(args):
            raise Unsupported("spec function %s arity" % fn.__name__)
        sub = Ctx(self, ctx.engine, ctx.st, ctx.pre, dict(zip(names, args)))
        sub.fn_globals = fn.__globals__
        r = sub.run_block(node.body)
        if r is _FALLTHROUGH:
            raise Unsupported("spec function %s may fall off its end" % fn.__name__)
        return r

    # -- symbolic primitives ------------------------------------------------------------------
    def _install_prims(self):
        P = self.prims
        uf = self.uf = {}

        def U(name, *sorts):
            uf[name] = z3.Function(name, *sorts)
            return uf[name]

        be32 = U("be32", Int, Bytes)
        unbe32 = U("unbe32", Bytes, Int)
        f64bytes = U("f64bytes", F64, Bytes)
        unf64 = U("unf64", Bytes, F64)
        utf8 = U("utf8", Bytes, Bytes)
        unutf8 = U("unutf8", Bytes, Bytes)
        utf8_ok = U("utf8_ok", Bytes, Bool)
        utf8_valid = U("utf8_valid", Bytes, Bool)
        utf8_strict_valid = U("utf8_strict_valid", Bytes, Bool)
        hashable_list = U("hashable_list", VL, Bool)
        dec = U("dec", Int, Bytes)
        undec = U("undec", Bytes, Int)
        is_decimal = U("is_decimal", Bytes, Bool)
        renderable = U("renderable", Int, Bool)
        zcomp = U("zcomp", Bytes, Int, Bytes)
        zdecomp = U("zdecomp", Bytes, Bytes)
        zvalid = U("zvalid", Bytes, Bool)
        order_of = U("order_of", VL, VL)
        canon = U("canon", VL, VL)
        int_str = U("int_str", Int, Bytes)
        f64_real = U("f64_real", F64, Real)

        def p_now(ctx):
            """the ghost clock: the latest value time.time() returned (non-decreasing)"""
            return ctx.st.ghost["$now"] if "$now" in ctx.st.ghost else ctx.engine.clock0()
        P["now"] = p_now
        P["num_of"] = lambda ctx, v: SReal(z3.If(Val.is_VInt(to_val(v)), z3.ToReal(Val.vi(to_val(v))), f64_real(Val.vf(to_val(v)))))
        P["isnum"] = lambda ctx, v: b2v(z3.Or(Val.is_VInt(to_val(v)), Val.is_VFloat(to_val(v)))) if isinstance(v, (SVal,)) or v is None else ops.is_reallike(v)
        def p_deleted(ctx, o, name):
            from .libmodels import DELETED
            return ctx.engine.heap_get(ctx.st, o, name) is DELETED
        P["is_deleted"] = p_deleted
        P["is_heap_obj"] = lambda ctx, v: isinstance(v, ops.HeapRef)
        sent_part = U("sent_part", Bytes, Bytes, Bytes)
        has_attr = U("has_attr", Val, Bytes, Bool)
        class_attr = U("class_attr", Int, Bytes, Val, Val)
        val_contains = U("val_contains", Val, Val, Bool)
        dict_of = U("dict_of", Val, Val)
        iter_items = U("iter_items", Val, VL)
        meta_attr = U("meta_attr", Val, Bytes, Val)
        py_id = U("py_id", Val, Int)
        is_module = U("is_module", Val, Bool)
        is_class = U("is_class", Val, Bool)
        in_sys_modules = U("in_sys_modules", Val, Bool)
        in_sys_modules_at = U("in_sys_modules_at", Val, Int, Bool)
        sys_module = U("sys_module", Val, Val)
        truthy_obj = U("truthy_obj", Val, Bool)
        sorted_by = U("sorted_by", Val, Val, Val)
        module_attr = U("module_attr", Val, Val, Val)
        is_exception_class = U("is_exception_class", Val, Bool)
        is_generic_exception_class = U("is_generic_exception_class", Val, Bool)
        class_name = U("class_name", Val, Val)
        class_of_instance = U("class_of_instance", Val, Val)
        stream_of = U("stream_of", Val, Val)        # the SocketStream built around a socket / the Channel built around a stream:
        channel_of = U("channel_of", Val, Val)      # the constructors only store their argument
        derived_from = U("derived_from", Val, Val)
        text_format = U("text_format", Val, VL, Val)
        netref_conn = U("netref_conn", Val, Val)
        netref_idpack = U("netref_idpack", Val, Val)
        id_pack = U("id_pack", Val, Val)
        decoded = U("decoded", Bytes, Val)
        str_of = U("str_of", Val, Bytes)
        seq_of = U("seq_of", Int, Val, Val)
        dict_view = U("dict_view", Int, z3.ArraySort(Val, Val), z3.ArraySort(Val, Bool), Val)
        subclass_inst = U("subclass_inst", Int, Int, Bool)

        def p_be32(ctx, n):
            t = be32(zint(n))
            self.fact(z3.Length(t) == 4)
            self.fact(z3.Implies(z3.And(zint(n) >= 0, zint(n) < 2 ** 32), unbe32(t) == zint(n)))
            return SBytes(t)
        P["be32"] = p_be32

        def p_unbe32(ctx, b):
            t = unbe32(zseq(b))
            self.fact(z3.And(t >= 0, t < 2 ** 32))
            return SInt(t)
        P["unbe32"] = p_unbe32

        def p_u8(ctx, n):
            return SBytes(z3.Unit(zint(n)))
        P["u8"] = p_u8

        def p_f64bytes(ctx, f):
            t = f64bytes(f.z)
            self.fact(z3.Length(t) == 8)
            self.fact(unf64(t) == f.z)
            return SBytes(t)
        P["f64bytes"] = p_f64bytes

        def p_unf64(ctx, b):
            return SF64(unf64(zseq(b)))
        P["unf64"] = p_unf64

        def p_utf8(ctx, s):
            t = utf8(zseq(s))
            # T-UTF8: the (surrogatepass) UTF-8 coding is total and injective; the strict codec accepts
            # exactly the encodings of text without lone surrogates
            self.fact(z3.And(unutf8(t) == zseq(s), utf8_valid(t), utf8_strict_valid(t) == utf8_ok(zseq(s))))
            # ... and every code point takes one to four bytes
            self.fact(z3.And(z3.Length(t) >= z3.Length(zseq(s)), z3.Length(t) <= 4 * z3.Length(zseq(s))))
            return SBytes(t)
        P["utf8"] = p_utf8
        P["utf8_strict_valid"] = lambda ctx, b: b2v(utf8_strict_valid(zseq(b)))
        P["hashable_list"] = lambda ctx, l: b2v(hashable_list(self.to_sort(l, "vl")))
        P["utf8_ok"] = lambda ctx, s: b2v(utf8_ok(zseq(s)))
        P["utf8_valid"] = lambda ctx, b: b2v(utf8_valid(zseq(b)))
        P["unutf8"] = lambda ctx, b: SStr(unutf8(zseq(b)))

        def p_dec(ctx, i):
            t = dec(zint(i))
            self.fact(z3.Length(t) >= 1)
            self.fact(z3.And(undec(t) == zint(i), is_decimal(t)))
            # small integers can always be rendered, in at most 19 characters (far below the interpreter's digit limit)
            self.fact(z3.Implies(z3.And(zint(i) > -10 ** 18, zint(i) < 10 ** 18),
                                 z3.And(self.uf["renderable"](zint(i)), z3.Length(t) <= 19)))
            return SBytes(t)
        P["dec"] = p_dec
        P["undec"] = lambda ctx, b: SInt(undec(zseq(b)))
        P["is_decimal"] = lambda ctx, b: b2v(is_decimal(zseq(b)))
        def p_renderable(ctx, i):
            z = zint(i)
            # integers of up to 600 digits can always be rendered (the interpreter's limit cannot be set below 640)
            small = z3.And(z > -10 ** 600, z < 10 ** 600)
            self.fact(z3.Implies(small, z3.And(renderable(z), z3.Length(dec(z)) <= 601)))
            return b2v(renderable(z))
        P["renderable"] = p_renderable

        def p_zcomp(ctx, d, lvl):
            t = zcomp(zseq(d), zint(lvl))
            self.fact(z3.And(zdecomp(t) == zseq(d), zvalid(t)))
            return SBytes(t)
        P["zcomp"] = p_zcomp
        ops.CONTAINS_HOOK = lambda c, x: val_contains(to_val(c), to_val(x))
        P["dict_of"] = lambda ctx, v: SVal(dict_of(to_val(v)))

        def p_call_kwargs(ctx, i):
            k = [e for e in ctx.st.trace if e[0] == "Call"][i][4]
            return SVal(k) if k is not None else None
        P["call_kwargs"] = p_call_kwargs
        P["has_attr"] = lambda ctx, o, n: b2v(has_attr(to_val(o), zseq(n)))
        P["class_attr"] = lambda ctx, o, n, d: SVal(class_attr(typeof(to_val(o)), zseq(n), to_val(d)))
        P["val_contains"] = lambda ctx, c, x: b2v(val_contains(to_val(c), to_val(x)))
        def p_exc_is(ctx, exc, name):
            import builtins
            cls = getattr(builtins, name)
            return isinstance(exc.cls, type) and issubclass(exc.cls, cls)
        P["exc_is"] = p_exc_is
        P["truthy"] = lambda ctx, v: b2v(truth(v))
        P["isvbool"] = lambda ctx, v: b2v(Val.is_VBool(to_val(v)))

        def p_n_calls(ctx):
            return len([e for e in ctx.st.trace if e[0] == "Call"])
        P["n_calls"] = p_n_calls
        P["call_fn"] = lambda ctx, i: SVal([e for e in ctx.st.trace if e[0] == "Call"][i][1])
        P["call_args"] = lambda ctx, i: SVL([e for e in ctx.st.trace if e[0] == "Call"][i][2])
        P["call_result"] = lambda ctx, i: SVal([e for e in ctx.st.trace if e[0] == "Call"][i][3])
        P["n_callees"] = lambda ctx, name: len([e for e in ctx.st.trace if e[0] == "Callee" and e[1] == name])
        P["callee_arg"] = lambda ctx, name, i, p: [e for e in ctx.st.trace if e[0] == "Callee" and e[1] == name][i][2][p]
        P["callee_result"] = lambda ctx, name, i: [e for e in ctx.st.trace if e[0] == "Callee" and e[1] == name][i][3]
        def p_known_handler(ctx, h):
            keys = sorted(ctx.S.consts["HANDLERS"])
            return b2v(z3.Or([ops._z(ops.eq(h, k)) for k in keys]))
        P["known_handler"] = p_known_handler
        P["is_close_handler"] = lambda ctx, h: b2v(ops._z(ops.eq(h, ctx.S.consts["HANDLE_CLOSE"])))
        P["n_requests"] = lambda ctx: len([e for e in ctx.st.trace if e[0] == "Request"])
        P["request_kind"] = lambda ctx, i: [e for e in ctx.st.trace if e[0] == "Request"][i][1]
        P["request_conn"] = lambda ctx, i: SVal([e for e in ctx.st.trace if e[0] == "Request"][i][2])
        P["request_args"] = lambda ctx, i: SVL([e for e in ctx.st.trace if e[0] == "Request"][i][3])
        P["request_result"] = lambda ctx, i: SVal([e for e in ctx.st.trace if e[0] == "Request"][i][4])
        P["loop_ghost"] = lambda ctx, i, g: [e for e in ctx.st.trace if e[0] == "Loop"][i][2][g]
        P["n_events"] = lambda ctx: len(ctx.st.trace)
        P["n_ev"] = lambda ctx, kind: len([e for e in ctx.st.trace if e[0] == kind])
        def p_ev_val(ctx, kind, i, k):
            x = [e for e in ctx.st.trace if e[0] == kind][i][k]
            return SVal(x) if z3.is_expr(x) else SVal(to_val(x))
        P["ev_val"] = p_ev_val
        # a view object built from a class statement inside the function (engine.LocalInstance): its hooks are closures
        def _hook(v, method):
            from .engine import LocalInstance
            if not isinstance(v, LocalInstance) or method not in v.cls.members:
                raise Unsupported("hook %r of %r" % (method, v))
            return v.cls.members[method]

        def p_hook_free(ctx, v, method, var):
            """the value the closure `method` of the local-class instance v sees for its free variable `var`"""
            c = _hook(v, method)
            if var not in c.env:
                raise Unsupported("free variable %r of hook %r" % (var, method))
            return c.env[var]
        P["hook_free"] = p_hook_free
        P["hook_is"] = lambda ctx, v, a, b: _hook(v, a) is _hook(v, b)
        P["hook_names"] = lambda ctx, v: tuple(sorted(v.cls.members))
        # the event's item as it is (a heap object stays the object: its fields / entries can be read)
        P["ev_obj"] = lambda ctx, kind, i, k: [e for e in ctx.st.trace if e[0] == kind][i][k]
        def p_ev_raised(ctx, kind, i):
            x = [e for e in ctx.st.trace if e[0] == kind][i][3]
            return isinstance(x, str) and x == "raise"
        P["ev_raised"] = p_ev_raised

        def p_call_returned(ctx, i):
            x = [e for e in ctx.st.trace if e[0] == "Call"][i][3]
            return not (isinstance(x, str) and x == "raise")
        P["call_returned"] = p_call_returned

        def p_called_and_returned(ctx, f, args):
            """the trace holds a call of exactly f with exactly these arguments that returned normally"""
            alts = []
            for e in ctx.st.trace:
                if e[0] == "Call" and not (isinstance(e[3], str) and e[3] == "raise"):
                    alts.append(z3.And(to_val(SVal(e[1]) if z3.is_expr(e[1]) else e[1]) == to_val(f), e[2] == self.to_sort(args, "vl")))
            return b2v(z3.Or(alts)) if alts else False
        P["called_and_returned"] = p_called_and_returned

        def p_called_and_returned_attr(ctx, obj, name):
            """the trace holds a read of attribute `name` of exactly this object whose result was then called, and the call returned"""
            tr = ctx.st.trace
            alts = []
            for i, e in enumerate(tr):
                if e[0] == "GetAttr" and not isinstance(e[3], str):
                    for c in tr[i + 1:]:
                        if c[0] == "Call" and z3.is_expr(c[1]) and z3.eq(c[1], e[3]) and not (isinstance(c[3], str) and c[3] == "raise"):
                            alts.append(z3.And(e[1] == to_val(obj), e[2] == to_val(name)))
            return b2v(z3.Or(alts)) if alts else False
        P["called_and_returned_attr"] = p_called_and_returned_attr

        def p_raised_by_attr(ctx, name):
            """the exception came out of reading or calling the attribute `name` of some object: the last ghost event is that
            failing read, or the failing call of what such a read returned"""
            tr = ctx.st.trace
            if not tr:
                return False
            last = tr[-1]
            nm = to_val(name)
            if last[0] == "GetAttr" and isinstance(last[3], str) and last[3] == "raise":
                return b2v(last[2] == nm)
            if last[0] == "Call" and isinstance(last[3], str) and last[3] == "raise":
                for e in reversed(tr[:-1]):
                    if e[0] == "GetAttr" and z3.is_expr(e[3]) and z3.is_expr(last[1]) and z3.eq(e[3], last[1]):
                        return b2v(e[2] == nm)
            return False
        P["raised_by_attr"] = p_raised_by_attr

        def p_n_attr_reads(ctx, name):
            """how many GetAttr events read an attribute whose name is (syntactically) this text"""
            nm = to_val(name)
            return len([e for e in ctx.st.trace if e[0] == "GetAttr" and z3.is_expr(e[2]) and z3.eq(z3.simplify(e[2]), z3.simplify(nm))])
        P["n_attr_reads"] = p_n_attr_reads
        P["ev_arg"] = lambda ctx, kind, i, k: [e for e in ctx.st.trace if e[0] == kind][i][k]
        P["typeobj"] = lambda ctx, v: SVal(Val.VRef(-1 - typeof(to_val(v))))

        def p_all_calls_from(ctx, name):
            results = [e[3] for e in ctx.st.trace if e[0] == "Callee" and e[1] == name and not isinstance(e[3], str)]
            conj = []
            for e in ctx.st.trace:
                if e[0] == "Call":
                    conj.append(z3.Or([e[1] == to_val(r) for r in results] + [FALSE]))
            return b2v(z3.And(conj)) if conj else True
        P["all_calls_from_callee"] = p_all_calls_from

        def p_all_getattr_on(ctx, obj):
            conj = [to_val(e[2]["obj"]) == to_val(obj) for e in ctx.st.trace if e[0] == "Callee" and e[1] == "_handle_getattr"]
            return b2v(z3.And(conj)) if conj else True
        P["all_getattr_on"] = p_all_getattr_on
        P["iter_items"] = lambda ctx, v: SVL(iter_items(to_val(v)))
        P["meta_attr"] = lambda ctx, v, n: SVal(meta_attr(to_val(v), zseq(n)))
        P["py_id"] = lambda ctx, v: SInt(py_id(to_val(v)))
        P["is_module"] = lambda ctx, v: b2v(is_module(to_val(v)))
        P["is_class"] = lambda ctx, v: b2v(is_class(to_val(v)))
        # isinstance(v, type) as the code's own test decides it: v is a heap object whose class derives from `type`
        def p_is_type_object(ctx, v):
            from .sorts import type_id
            return b2v(z3.And(Val.is_VRef(to_val(v)), subclass_inst(Val.oid(to_val(v)), type_id(type))))
        P["is_type_object"] = p_is_type_object
        P["netref_conn"] = lambda ctx, v: SVal(netref_conn(to_val(v)))
        def p_netref_idpack(ctx, v):
            r = SVal(netref_idpack(to_val(v)))
            # T-NETREF: a proxy's id pack is the (decoded, hence plain and re-encodable) value _unbox created it with
            if not getattr(self, "_in_nip", False):
                self._in_nip = True
                try:
                    for nm in ("plain", "sized"):
                        self.fact(ops._z(truth(self.rec_app(ctx, self.recs[nm], [r]))))
                finally:
                    self._in_nip = False
            return r
        P["netref_idpack"] = p_netref_idpack
        P["id_pack"] = lambda ctx, v: SVal(id_pack(to_val(v)))
        def seq2(z):
            """a plain value that unpacks into exactly two items, and those items: a 2-tuple; 2 bytes (two ints); a
            2-character text (two 1-character texts); a frozenset of two items (in its iteration order)"""
            l, by, tx, o = Val.titems(z), Val.vby(z), Val.vs(z), order_of(Val.fitems(z))
            two = lambda c: z3.And(VL.is_cons(c), VL.is_cons(VL.tl(c)), VL.tl(VL.tl(c)) == VL.nil)
            is2 = z3.Or(z3.And(Val.is_VTuple(z), two(l)), z3.And(Val.is_VBytes(z), z3.Length(by) == 2),
                        z3.And(Val.is_VStr(z), z3.Length(tx) == 2), z3.And(Val.is_VFset(z), two(o)))
            pick = lambda k: z3.If(Val.is_VTuple(z), VL.hd(l) if k == 0 else VL.hd(VL.tl(l)),
                                   z3.If(Val.is_VBytes(z), Val.VInt(by[k]),
                                         z3.If(Val.is_VStr(z), Val.VStr(z3.Unit(tx[k])), VL.hd(o) if k == 0 else VL.hd(VL.tl(o)))))
            return is2, pick(0), pick(1)
        self.seq2 = seq2

        def p_nth_item(ctx, v, k):
            """the k-th item a plain iterable unpacks into: a tuple's item; a byte of bytes (an int); a character of a
            text (a 1-character text); an item of a frozenset in its iteration order"""
            z = to_val(v)
            l, by, tx, o = Val.titems(z), Val.vby(z), Val.vs(z), order_of(Val.fitems(z))
            def nth(c):
                for _ in range(k):
                    c = VL.tl(c)
                return VL.hd(c)
            return SVal(z3.If(Val.is_VTuple(z), nth(l), z3.If(Val.is_VBytes(z), Val.VInt(by[k]),
                                                              z3.If(Val.is_VStr(z), Val.VStr(z3.Unit(tx[k])), nth(o)))))
        P["nth_item"] = p_nth_item

        def p_label_is(ctx, pkg, label):
            is2, first, second = seq2(to_val(pkg))
            return b2v(z3.And(is2, ops._z(ops.eq(SVal(first), label))))
        P["label_is"] = p_label_is
        P["payload"] = lambda ctx, pkg: SVal(seq2(to_val(pkg))[2])
        P["is_pair"] = lambda ctx, pkg: b2v(seq2(to_val(pkg))[0])

        def p_iter_source(ctx, v):
            """the items a `for` over the plain value v visits: a tuple's items (a frozenset's in its iteration order)"""
            z = to_val(v)
            return SVL(z3.If(Val.is_VTuple(z), Val.titems(z), z3.If(Val.is_VFset(z), order_of(Val.fitems(z)), iter_items(z))))
        P["iter_source"] = p_iter_source
        def _dict_items(ctx, d):
            eng = ctx.engine
            return SVal(dict_view(z3.IntVal(2), eng.heap_get(ctx.st, d, "map").z, eng.heap_get(ctx.st, d, "has").z))
        P["dict_items"] = _dict_items
        P["is_int"] = lambda ctx, v: b2v(z3.And(Val.is_VInt(to_val(v))))
        P["sys_module"] = lambda ctx, n: SVal(sys_module(to_val(n)))
        P["module_attr"] = lambda ctx, m, n: SVal(module_attr(to_val(m), to_val(n)))
        P["is_exception_class"] = lambda ctx, c: b2v(is_exception_class(to_val(c)))
        P["is_generic_exception_class"] = lambda ctx, c: b2v(is_generic_exception_class(to_val(c)))
        P["class_name"] = lambda ctx, c: SVal(class_name(to_val(c)))
        P["class_of_instance"] = lambda ctx, c: SVal(class_of_instance(to_val(c)))
        P["stream_of"] = lambda ctx, c: SVal(stream_of(to_val(c)))
        P["channel_of"] = lambda ctx, c: SVal(channel_of(to_val(c)))
        P["derived_from"] = lambda ctx, c: SVal(derived_from(to_val(c)))
        P["text_format"] = lambda ctx, f, l: SVal(Val.VStr(ops.TEXT_FMT(to_val(f), Val.VTuple(self.to_sort(l, "vl")))))

        def p_generic_cache_ok(ctx, d):
            """class invariant of vinegar's cache of stand-in classes: what is cached under a name is a generic stand-in class
            with exactly that name"""
            m, h = ctx.engine.heap_get(ctx.st, d, "map").z, ctx.engine.heap_get(ctx.st, d, "has").z
            q = z3.Const("q!gen", Val)
            c = z3.Select(m, q)
            return b2v(z3.ForAll([q], z3.Implies(z3.Select(h, q), z3.And(is_generic_exception_class(c), class_name(c) == q)),
                                 patterns=[z3.Select(h, q)]))
        def p_case_of(ctx, which, v):
            """x.upper() / x.lower() of a text or bytes value (uninterpreted, the same function the code model uses)"""
            z = to_val(v)
            t = Val.VStr(ops.TEXT_FMT(Val.VStr(seq_lit("." + which)), Val.VTuple(VL.cons(z, VL.nil))))
            b = Val.VBytes(ops.TEXT_FMT(Val.VStr(seq_lit("bytes." + which)), Val.VTuple(VL.cons(z, VL.nil))))
            return SVal(z3.If(Val.is_VBytes(z), b, t))
        P["upper_of"] = lambda ctx, v: p_case_of(ctx, "upper", v)
        P["lower_of"] = lambda ctx, v: p_case_of(ctx, "lower", v)
        def p_conns_truthy(ctx, d):
            """class invariant of fd_to_conn: what is stored under a descriptor is a connection object (a truthy heap object)"""
            m, h = ctx.engine.heap_get(ctx.st, d, "map").z, ctx.engine.heap_get(ctx.st, d, "has").z
            q = z3.Const("q!fd", Val)
            c = z3.Select(m, q)
            return b2v(z3.ForAll([q], z3.Implies(z3.Select(h, q), z3.And(Val.is_VRef(c), ops.vtruth(Val.oid(c)))),
                                 patterns=[z3.Select(h, q)]))
        P["conns_truthy"] = p_conns_truthy

        def p_is_new(ctx, x):
            """x is an object created by this very call (so nothing outside can hold a reference to it yet)"""
            from .engine import Obj
            return isinstance(x, Obj) and bool(x.allocated)
        P["is_new"] = p_is_new

        def p_config_overrides(ctx, d, c):
            """every entry of the caller's config c (but the connection id, which is generated when absent) is in d with c's value"""
            e = ctx.engine
            md, hd = e.heap_get(ctx.st, d, "map").z, e.heap_get(ctx.st, d, "has").z
            mc, hc = e.heap_get(ctx.pre, c, "map").z, e.heap_get(ctx.pre, c, "has").z
            k = z3.Const("q!cfg", Val)
            return b2v(z3.ForAll([k], z3.Implies(z3.And(z3.Select(hc, k), k != Val.VStr(seq_lit("connid"))),
                                                 z3.And(z3.Select(hd, k), z3.Select(md, k) == z3.Select(mc, k)))))
        P["config_overrides"] = p_config_overrides

        def p_shutdown_attempted_on(ctx, sock):
            """the trace holds a read of the `shutdown` attribute of exactly this socket object (followed by its call unless the read
            itself failed)"""
            tr = ctx.st.trace
            alts = []
            for i, e in enumerate(tr):
                if e[0] == "GetAttr":
                    if isinstance(e[3], str) or any(c[0] == "Call" and z3.is_expr(c[1]) and z3.eq(c[1], e[3]) for c in tr[i + 1:]):
                        alts.append(z3.And(e[1] == to_val(sock), e[2] == Val.VStr(seq_lit("shutdown"))))
            return b2v(z3.Or(alts)) if alts else False
        P["shutdown_attempted_on"] = p_shutdown_attempted_on

        def p_all_keys_in(ctx, d, l):
            """every key the dict still has occurs in the list l"""
            h = ctx.engine.heap_get(ctx.st, d, "has").z
            q = z3.Const("q!k", Val)
            lz = self.to_sort(l, "vl")
            mem = self.recs["member"].z
            # the definition of `member`, for every element (the unfoldings emitted elsewhere are for particular terms only)
            x, hd_, tl_ = z3.Const("q!x", Val), z3.Const("q!h", Val), z3.Const("q!t", VL)
            self.fact(z3.ForAll([x, hd_, tl_], mem(x, VL.cons(hd_, tl_)) == z3.Or(x == hd_, mem(x, tl_)),
                                patterns=[mem(x, VL.cons(hd_, tl_))]))
            self.fact(z3.ForAll([x], z3.Not(mem(x, VL.nil)), patterns=[mem(x, VL.nil)]))
            return b2v(z3.ForAll([q], z3.Implies(z3.Select(h, q), mem(q, lz)), patterns=[z3.Select(h, q)]))
        P["all_keys_in"] = p_all_keys_in

        def p_members_of(ctx, sub, whole):
            """every element of the list `sub` occurs in the list `whole` (a loop over `whole` keeps this for what is left)"""
            mem = self.recs["member"].z
            x, hd_, tl_ = z3.Const("q!x", Val), z3.Const("q!h", Val), z3.Const("q!t", VL)
            self.fact(z3.ForAll([x, hd_, tl_], mem(x, VL.cons(hd_, tl_)) == z3.Or(x == hd_, mem(x, tl_)),
                                patterns=[mem(x, VL.cons(hd_, tl_))]))
            self.fact(z3.ForAll([x], z3.Not(mem(x, VL.nil)), patterns=[mem(x, VL.nil)]))
            a, b = self.to_sort(sub, "vl"), self.to_sort(whole, "vl")
            return b2v(z3.ForAll([x], z3.Implies(mem(x, a), mem(x, b)), patterns=[mem(x, a)]))
        P["members_of"] = p_members_of

        def p_entries_sorted_by(ctx, d, key, keysrc):
            """the value sorted(d[key].items(), key=lambda x: <keysrc>) denotes, for the dict-of-dicts d in the current state"""
            e = ctx.engine
            m2, h2 = e.heap_get(ctx.st, d, "map2").z, e.heap_get(ctx.st, d, "has2").z
            view = dict_view(z3.IntVal(2), z3.Select(m2, to_val(key)), z3.Select(h2, to_val(key)))
            return SVal(sorted_by(view, to_val(keysrc)))
        P["entries_sorted_by"] = p_entries_sorted_by
        P["generic_cache_ok"] = p_generic_cache_ok
        P["module_global"] = lambda ctx, modname, name: ctx.engine.global_obj(modname, name)
        P["tuple_of"] = lambda ctx, v: SVal(seq_of(z3.IntVal(0), to_val(v)))
        P["list_of"] = lambda ctx, v: SVal(seq_of(z3.IntVal(1), to_val(v)))
        P["n_local"] = lambda ctx: len([e for e in ctx.st.trace if e[0] in ("LocalGet", "LocalSet", "LocalDel")])
        P["n_ops"] = lambda ctx: len([e for e in ctx.st.trace if e[0] == "Op"])
        P["op_name"] = lambda ctx, i: [e for e in ctx.st.trace if e[0] == "Op"][i][1]
        P["op_target"] = lambda ctx, i: SVal([e for e in ctx.st.trace if e[0] == "Op"][i][2])
        P["op_args"] = lambda ctx, i: SVL([e for e in ctx.st.trace if e[0] == "Op"][i][3])
        P["op_result"] = lambda ctx, i: SVal([e for e in ctx.st.trace if e[0] == "Op"][i][4])
        P["str_of"] = lambda ctx, v: SStr(str_of(to_val(v)))

        def p_refcount(ctx, v):
            arr = ctx.st.heap[("$netref", "refcount")] if ("$netref", "refcount") in ctx.st.heap else ctx.engine.netref_refcounts0()
            return SInt(z3.Select(arr.z, to_val(v)))
        P["refcount"] = p_refcount

        def p_counts_unchanged_except(ctx, v):
            """the reference count of every proxy other than v is what it was at function entry"""
            k = ("$netref", "refcount")
            now = ctx.st.heap[k] if k in ctx.st.heap else ctx.engine.netref_refcounts0()
            was = ctx.pre.heap[k] if k in ctx.pre.heap else ctx.engine.netref_refcounts0()
            if now is was:
                return True
            q = z3.Const("q!rc", Val)
            return b2v(z3.ForAll([q], z3.Implies(q != to_val(v), z3.Select(now.z, q) == z3.Select(was.z, q)),
                                 patterns=[z3.Select(now.z, q)]))
        P["counts_unchanged_except"] = p_counts_unchanged_except
        P["decoded"] = lambda ctx, b: SVal(decoded(zseq(b) if not isinstance(b, SVal) else Val.vby(b.z)))

        def p_is_netref(ctx, v):
            import rpyc.core.netref as nr
            from .sorts import type_id
            z = to_val(v)
            isn = z3.And(Val.is_VRef(z), subclass_inst(Val.oid(z), type_id(nr.BaseNetref)))
            # every proxy has the proxy slots
            self.fact(z3.Implies(isn, z3.And(has_attr(z, seq_lit("____id_pack__")), has_attr(z, seq_lit("____conn__")))))
            return b2v(isn)
        P["is_netref"] = p_is_netref
        P["is_netref_like"] = lambda ctx, v: b2v(has_attr(to_val(v), seq_lit("____id_pack__")))

        def p_is_id_pack(ctx, v):
            z = to_val(v)
            l = Val.titems(z)
            return b2v(z3.And(Val.is_VTuple(z), VL.is_cons(l), VL.is_cons(VL.tl(l)), VL.is_cons(VL.tl(VL.tl(l))),
                              VL.tl(VL.tl(VL.tl(l))) == VL.nil, Val.is_VStr(VL.hd(l)), Val.is_VInt(VL.hd(VL.tl(l))),
                              Val.is_VInt(VL.hd(VL.tl(VL.tl(l))))))
        P["is_id_pack"] = p_is_id_pack
        P["idpack_cid"] = lambda ctx, v: SInt(Val.vi(VL.hd(VL.tl(Val.titems(to_val(v))))))
        P["idpack_iid"] = lambda ctx, v: SInt(Val.vi(VL.hd(VL.tl(VL.tl(Val.titems(to_val(v)))))))
        P["pair"] = lambda ctx, a, b: SVal(Val.VTuple(VL.cons(to_val(a), VL.cons(to_val(b), VL.nil))))
        P["sent_part"] = lambda ctx, a, b: SBytes(sent_part(zseq(a), zseq(b)))
        P["zdecomp"] = lambda ctx, d: SBytes(zdecomp(zseq(d)))
        P["zvalid"] = lambda ctx, d: b2v(zvalid(zseq(d)))

        # Val inspection
        def isk(tester):
            return lambda ctx, v: b2v(tester(to_val(v)))
        P["isnone"] = isk(Val.is_VNone)
        P["isnotimpl"] = isk(Val.is_VNotImpl)
        P["isellipsis"] = isk(Val.is_VEllipsis)
        P["isbool"] = isk(Val.is_VBool)
        P["isint"] = isk(Val.is_VInt)
        P["isfloat"] = isk(Val.is_VFloat)
        P["iscomplex"] = isk(Val.is_VComplex)
        P["isbytes"] = isk(Val.is_VBytes)
        P["isstr"] = isk(Val.is_VStr)
        P["istuple"] = isk(Val.is_VTuple)
        P["isfset"] = isk(Val.is_VFset)
        P["isslice"] = isk(Val.is_VSlice)
        P["isref"] = isk(Val.is_VRef)
        P["as_bool"] = lambda ctx, v: b2v(Val.vb(to_val(v)))
        P["as_int"] = lambda ctx, v: i2v(Val.vi(to_val(v)))
        P["as_float"] = lambda ctx, v: SF64(Val.vf(to_val(v)))
        P["re_of"] = lambda ctx, v: SF64(Val.vre(to_val(v)))
        P["im_of"] = lambda ctx, v: SF64(Val.vim(to_val(v)))
        P["as_bytes"] = lambda ctx, v: SBytes(Val.vby(to_val(v)))
        P["as_str"] = lambda ctx, v: SStr(Val.vs(to_val(v)))
        P["items"] = lambda ctx, v: SVL(v.z) if isinstance(v, (SVL, SFset)) else SVL(Val.titems(to_val(v)))
        P["fitems"] = lambda ctx, v: SVL(v.z) if isinstance(v, SFset) else SVL(Val.fitems(to_val(v)))
        P["slice_start"] = lambda ctx, v: SVal(Val.sstart(to_val(v)))
        P["slice_stop"] = lambda ctx, v: SVal(Val.sstop(to_val(v)))
        P["slice_step"] = lambda ctx, v: SVal(Val.sstep(to_val(v)))
        P["isnil"] = lambda ctx, l: b2v(self.to_sort(l, "vl") == VL.nil)
        P["head"] = lambda ctx, l: SVal(VL.hd(self.to_sort(l, "vl")))
        P["tail"] = lambda ctx, l: SVL(VL.tl(self.to_sort(l, "vl")))
        P["cons"] = lambda ctx, h, t: SVL(VL.cons(to_val(h), self.to_sort(t, "vl")))
        P["nil"] = lambda ctx: SVL(VL.nil)
        P["mktuple"] = lambda ctx, l: SVal(Val.VTuple(self.to_sort(l, "vl")))
        P["mkfset"] = lambda ctx, l: SVal(Val.VFset(self.to_sort(l, "vl")))
        P["mkbytes"] = lambda ctx, b: SVal(Val.VBytes(zseq(b)))
        P["mkstr"] = lambda ctx, b: SVal(Val.VStr(zseq(b)))
        P["mkint"] = lambda ctx, i: SVal(Val.VInt(zint(i)))
        P["mkfloat"] = lambda ctx, f: SVal(Val.VFloat(f.z))
        P["mkcomplex"] = lambda ctx, a, b: SVal(Val.VComplex(a.z, b.z))
        P["mkslice"] = lambda ctx, a, b, c: SVal(Val.VSlice(to_val(a), to_val(b), to_val(c)))
        P["val"] = lambda ctx, x: SVal(to_val(x))
        def p_order_of(ctx, l):
            lz = SVL(self.to_sort(l, "vl"))
            o = SVL(order_of(lz.z))
            if not getattr(self, "_in_perm", False):
                self._in_perm = True
                try:
                    for f in self.perm_facts(ctx.engine, ctx.st, o, lz):
                        self.fact(f)
                finally:
                    self._in_perm = False
            return o
        P["order_of"] = p_order_of
        P["canon"] = lambda ctx, l: SVL(canon(self.to_sort(l, "vl")))
        P["typeid"] = lambda ctx, v: i2v(typeof(to_val(v)))

        # sequences
        P["empty"] = lambda ctx: b""
        P["nth"] = lambda ctx, s, i: i2v(zseq(s)[zint(i)])
        fs_is_dir = U("fs_is_dir", Val, Bool, Bool)
        fs_is_file = U("fs_is_file", Val, Bool, Bool)
        fs_entries = U("fs_entries", Val, Bool, Val)
        path_join = U("path_join", Val, Val, Bool, Val)
        P["fs_is_dir"] = lambda ctx, p, r: b2v(fs_is_dir(to_val(p), zbool(r)))
        P["fs_is_file"] = lambda ctx, p, r: b2v(fs_is_file(to_val(p), zbool(r)))
        P["fs_entries"] = lambda ctx, p, r: SVal(fs_entries(to_val(p), zbool(r)))
        P["path_join"] = lambda ctx, a, b, r: SVal(path_join(to_val(a), to_val(b), zbool(r)))
        P["sub"] = lambda ctx, b, i, n: SBytes(z3.SubSeq(zseq(b), zint(i), zint(n)))      # the n bytes of b from index i
        P["startswith"] = lambda ctx, s, p: b2v(z3.PrefixOf(zseq(p), zseq(s)))

        def p_join(ctx, lst):
            from .engine import Obj
            if isinstance(lst, Obj) and lst.kind == "joinlist":
                return ctx.engine.heap_get(ctx.st, lst, "joined")
            raise Unsupported("join() of %r" % (lst,))
        P["join"] = p_join

        def p_implies(ctx, a, b):
            return b2v(z3.Implies(ops._z(truth(a)), ops._z(truth(b))))
        P["implies"] = p_implies

        def p_haskey(ctx, d, k):
            return b2v(z3.Select(ctx.engine.heap_get(ctx.st, d, "has").z, to_val(k)))
        P["haskey"] = p_haskey

        def p_registrations_unchanged_except(ctx, d, name, addr):
            """dict-of-dicts d: every pair (n, a) other than (name, addr) is a member now iff it was at entry, with the same value"""
            e = ctx.engine
            def view(st):
                return (e.heap_get(st, d, "has").z, e.heap_get(st, d, "has2").z, e.heap_get(st, d, "map2").z)
            h, h2, m2 = view(ctx.st)
            h0, h20, m20 = view(ctx.pre)
            n, a = z3.Const("q!n", Val), z3.Const("q!a", Val)
            now_ = z3.And(z3.Select(h, n), z3.Select(z3.Select(h2, n), a))
            was = z3.And(z3.Select(h0, n), z3.Select(z3.Select(h20, n), a))
            same_ = z3.And(now_ == was, z3.Implies(now_, z3.Select(z3.Select(m2, n), a) == z3.Select(z3.Select(m20, n), a)))
            return b2v(z3.ForAll([n, a], z3.Or(z3.And(n == to_val(name), a == to_val(addr)), same_)))
        P["registrations_unchanged_except"] = p_registrations_unchanged_except

        def p_other_servers_untouched(ctx, d, addr):
            """dict-of-dicts d: every registration (n, a) with a != addr is a member now iff it was at function entry, same time"""
            e = ctx.engine
            def view(st):
                return (e.heap_get(st, d, "has").z, e.heap_get(st, d, "has2").z, e.heap_get(st, d, "map2").z)
            h, h2, m2 = view(ctx.st)
            h0, h20, m20 = view(ctx.engine.pre_state if ctx.pre is None else ctx.pre)
            n, a = z3.Const("q!on", Val), z3.Const("q!oa", Val)
            now_ = z3.And(z3.Select(h, n), z3.Select(z3.Select(h2, n), a))
            was = z3.And(z3.Select(h0, n), z3.Select(z3.Select(h20, n), a))
            same_ = z3.And(now_ == was, z3.Implies(now_, z3.Select(z3.Select(m2, n), a) == z3.Select(z3.Select(m20, n), a)))
            return b2v(z3.ForAll([n, a], z3.Or(a == to_val(addr), same_)))
        P["other_servers_untouched"] = p_other_servers_untouched

        def p_other_names_untouched(ctx, d, name):
            """dict-of-dicts d: every entry under a name other than `name` is exactly what it was at function entry"""
            e = ctx.engine
            def view(st):
                return (e.heap_get(st, d, "has").z, e.heap_get(st, d, "has2").z, e.heap_get(st, d, "map2").z)
            h, h2, m2 = view(ctx.st)
            h0, h20, m20 = view(ctx.engine.pre_state if ctx.pre is None else ctx.pre)
            n = z3.Const("q!nm", Val)
            return b2v(z3.ForAll([n], z3.Or(n == to_val(name), z3.And(z3.Select(h, n) == z3.Select(h0, n),
                                                                     z3.Select(h2, n) == z3.Select(h20, n), z3.Select(m2, n) == z3.Select(m20, n)))))
        P["other_names_untouched"] = p_other_names_untouched

        def p_times_ok(ctx, d):
            """class invariant of the registry's table: every registration carries a time (a float object)"""
            e = ctx.engine
            h, h2, m2 = e.heap_get(ctx.st, d, "has").z, e.heap_get(ctx.st, d, "has2").z, e.heap_get(ctx.st, d, "map2").z
            n, a = z3.Const("q!tn", Val), z3.Const("q!ta", Val)
            return b2v(z3.ForAll([n, a], z3.Implies(z3.And(z3.Select(h, n), z3.Select(z3.Select(h2, n), a)),
                                                    Val.is_VFloat(z3.Select(z3.Select(m2, n), a))),
                                 patterns=[z3.Select(z3.Select(m2, n), a)]))
        P["times_ok"] = p_times_ok

        def p_only_key(ctx, d, k):
            """the dict has no key other than k"""
            h = ctx.engine.heap_get(ctx.st, d, "has").z
            kk = to_val(k)
            return b2v(h == z3.Store(z3.K(Val, z3.BoolVal(False)), kk, z3.Select(h, kk)))
        P["only_key"] = p_only_key

        def p_all_slots_ok(ctx, d):
            """class invariant of the reference-counting table: every stored slot is a well-formed [object, count >= 0]"""
            m, h = ctx.engine.heap_get(ctx.st, d, "map").z, ctx.engine.heap_get(ctx.st, d, "has").z
            q = z3.Const("q!slots", Val)
            v = z3.Select(m, q)
            l = Val.titems(v)
            ok = z3.And(Val.is_VTuple(v), VL.is_cons(l), VL.is_cons(VL.tl(l)), VL.tl(VL.tl(l)) == VL.nil,
                        Val.is_VInt(VL.hd(VL.tl(l))), Val.vi(VL.hd(VL.tl(l))) >= 0)
            return b2v(z3.ForAll([q], z3.Implies(z3.Select(h, q), ok), patterns=[z3.Select(h, q)]))
        P["all_slots_ok"] = p_all_slots_ok

        def p_cache_ok(ctx, d, conn):
            """class invariant of the proxy cache: what is cached under an id pack is a proxy of this connection for
            exactly that id pack, with a positive reference count"""
            m, h = ctx.engine.heap_get(ctx.st, d, "map").z, ctx.engine.heap_get(ctx.st, d, "has").z
            q = z3.Const("q!cache", Val)
            p = z3.Select(m, q)
            from .sorts import type_id
            import rpyc.core.netref as nr
            isn = z3.And(Val.is_VRef(p), subclass_inst(Val.oid(p), type_id(nr.BaseNetref)))
            ok = z3.And(isn, netref_idpack(p) == q, netref_conn(p) == to_val(conn))
            return b2v(z3.ForAll([q], z3.Implies(z3.Select(h, q), ok), patterns=[z3.Select(h, q)]))
        P["cache_ok"] = p_cache_ok

        def p_unchanged_except(ctx, d, key):
            """every entry of dict d other than `key` is what it was at function entry"""
            m1, h1 = ctx.engine.heap_get(ctx.st, d, "map").z, ctx.engine.heap_get(ctx.st, d, "has").z
            m0, h0 = ctx.engine.heap_get(ctx.pre, d, "map").z, ctx.engine.heap_get(ctx.pre, d, "has").z
            k = to_val(key)
            return b2v(z3.And(m1 == z3.Store(m0, k, z3.Select(m1, k)), h1 == z3.Store(h0, k, z3.Select(h1, k))))
        P["unchanged_except"] = p_unchanged_except

        def p_dict_empty(ctx, d):
            return b2v(ctx.engine.heap_get(ctx.st, d, "has").z == z3.K(Val, z3.BoolVal(False)))
        P["dict_empty"] = p_dict_empty

        def p_ite(ctx, c, a, b):
            return merge_values(truth(c), a, b)
        P["ite"] = p_ite
        P["same"] = lambda ctx, a, b: b2v(to_val(a) == to_val(b))
        P["iff"] = lambda ctx, a, b: b2v(ops._z(truth(a)) == ops._z(truth(b)))
        P["tid"] = lambda ctx, t: TYPE_ID[t]


def ite_leaves(term, guard=None, limit=64):
    """[(guard | None, leaf)] for the top-level if-then-else tree of a term"""
    out = []

    def go(t, g):
        if z3.is_app(t) and t.decl().kind() == z3.Z3_OP_ITE and len(out) < limit:
            c, a, b = t.children()
            go(a, c if g is None else z3.And(g, c))
            go(b, z3.Not(c) if g is None else z3.And(g, z3.Not(c)))
        else:
            out.append((g, t))
    go(term, guard)
    return out


_FALLTHROUGH = object()


def engine_checker_error(msg):
    from .engine import CheckerError
    return CheckerError(msg)


def engine_state():
    from .engine import State
    return State()


def wrap_as(z, sort):
    return WRAP[sort](z)


def merge_values(c, a, b):
    """ite over engine values"""
    if isinstance(c, bool):
        return a if c else b
    if z3.is_true(c):
        return a
    if z3.is_false(c):
        return b
    if a is b:
        return a
    if isinstance(a, tuple) and isinstance(b, tuple) and len(a) == len(b):
        return tuple(merge_values(c, x, y) for x, y in zip(a, b))
    if (isinstance(a, SReal) or isinstance(b, SReal)) and ops.is_reallike(a) and ops.is_reallike(b):
        return SReal(z3.If(c, ops.zreal(a), ops.zreal(b)))
    for test, conv, W in ((ops.is_intlike, zint, SInt), (ops.is_byteslike, zseq, SBytes), (ops.is_strlike, zseq, SStr)):
        if test(a) and test(b) and not isinstance(a, bool) and not isinstance(b, bool):
            return W(z3.If(c, conv(a), conv(b)))
    if isinstance(a, (bool, SBool)) and isinstance(b, (bool, SBool)):
        return b2v(z3.If(c, zbool(a), zbool(b)))
    if isinstance(a, (SVL, SFset)) and isinstance(b, (SVL, SFset)):
        return type(a)(z3.If(c, a.z, b.z))
    if isinstance(a, SF64) and isinstance(b, SF64):
        return SF64(z3.If(c, a.z, b.z))
    return SVal(z3.If(c, to_val(a), to_val(b)))


class Ctx(object):
    """evaluation context of one spec expression / spec function body"""

    def __init__(self, env, engine, st, pre, scope):
        self.S = env
        self.engine = engine
        self.st = st
        self.pre = pre
        self.scope = scope
        self.fn_globals = None

    # -- statements of spec functions ----------------------------------------------------------
    def run_block(self, stmts):
        for i, s in enumerate(stmts):
            if isinstance(s, ast.Expr) and isinstance(s.value, ast.Constant):
                continue
            if isinstance(s, ast.Return):
                return self.ev(s.value)
            if isinstance(s, ast.Assign) and len(s.targets) == 1 and isinstance(s.targets[0], ast.Name):
                self.scope[s.targets[0].id] = self.ev(s.value)
                continue
            if isinstance(s, ast.If):
                c = truth(self.ev(s.test))
                rest = stmts[i + 1:]
                if isinstance(c, bool):
                    return self.run_block((s.body if c else s.orelse) + rest)
                saved = dict(self.scope)
                a = self.run_block(s.body + rest)
                self.scope = dict(saved)
                b = self.run_block(s.orelse + rest)
                self.scope = saved
                if a is _FALLTHROUGH or b is _FALLTHROUGH:
                    raise Unsupported("spec function falls through on one branch")
                return merge_values(c, a, b)
            raise Unsupported("statement %s in spec function" % type(s).__name__)
        return _FALLTHROUGH

    # -- expressions ----------------------------------------------------------------------------
    def ev(self, e):
        m = getattr(self, "x_" + type(e).__name__, None)
        if m is None:
            raise Unsupported("spec expression %s" % type(e).__name__)
        return m(e)

    def x_Constant(self, e):
        return e.value

    def x_Name(self, e):
        n = e.id
        if n in self.scope:
            return self.scope[n]
        if n in self.S.consts:
            return self.S.consts[n]
        if self.fn_globals is not None and n in self.fn_globals and not callable(self.fn_globals[n]):
            return self.fn_globals[n]
        if self.engine is not None and self.engine.cur is not None and hasattr(self.engine.cur[3], n):
            return getattr(self.engine.cur[3], n)
        import builtins
        if hasattr(builtins, n):
            return getattr(builtins, n)
        raise Unsupported("unknown name %r in spec" % n)

    def x_Tuple(self, e):
        return tuple(self.ev(x) for x in e.elts)

    def x_List(self, e):
        return [self.ev(x) for x in e.elts]

    def x_Attribute(self, e):
        o = self.ev(e.value)
        from .engine import Obj, ExcObj
        if isinstance(o, ExcObj):
            if e.attr == "args":
                return tuple(o.args)
            if e.attr in o.info:
                return o.info[e.attr]
            raise Unsupported("spec: attribute %s of exception object" % e.attr)
        if isinstance(o, Obj):
            v = self.engine.heap_get(self.st, o, e.attr)
            if v is None and not self.engine.field_sort(o, e.attr):
                cls = o.cls
                if not isinstance(cls, str) and hasattr(cls, e.attr):
                    return getattr(cls, e.attr)
                raise Unsupported("spec: field %s of %r is not declared" % (e.attr, o))
            return v
        if is_sym(o):
            raise Unsupported("spec: attribute %s of symbolic %r" % (e.attr, o))
        try:
            return getattr(o, e.attr)
        except Exception as ex:
            raise Unsupported("spec: attribute %s of %r raises %r" % (e.attr, type(o).__name__, ex))

    def x_Subscript(self, e):
        o = self.ev(e.value)
        if isinstance(e.slice, ast.Slice):
            raise Unsupported("slicing in spec (use decomposition)")
        k = self.ev(e.slice)
        from .engine import Obj
        if isinstance(o, Obj) and o.kind == "dict" and getattr(o, "valkind", None) == "dict":
            return self.engine.inner_dict(o, to_val(k))
        if isinstance(o, Obj) and o.kind == "dict":
            return SVal(z3.Select(self.engine.heap_get(self.st, o, "map").z, to_val(k)))
        if isinstance(o, (tuple, list, dict)) and not is_sym(k):
            return o[k]
        if isinstance(o, (SBytes, SStr)):
            return i2v(o.z[zint(k)])
        if isinstance(o, dict) and is_sym(k):
            v, errs = ops.const_table_lookup(o, k)
            return v
        raise Unsupported("spec subscript")

    def x_UnaryOp(self, e):
        v = self.ev(e.operand)
        if isinstance(e.op, ast.Not):
            t = truth(v)
            return (not t) if isinstance(t, bool) else b2v(z3.Not(t))
        if isinstance(e.op, ast.USub):
            return i2v(-zint(v))
        raise Unsupported("spec unary")

    def x_BoolOp(self, e):
        vals = []
        for v in e.values:
            t = truth(self.ev(v))
            if isinstance(t, bool):             # short-circuit on concrete operands (later ones may be undefined)
                if t != isinstance(e.op, ast.And):
                    return t
                continue
            vals.append(t)
        if not vals:
            return isinstance(e.op, ast.And)
        zs = [ops._z(v) for v in vals]
        return b2v(z3.And(zs) if isinstance(e.op, ast.And) else z3.Or(zs))

    def x_BinOp(self, e):
        a, b = self.ev(e.left), self.ev(e.right)
        from .engine import Obj
        v, errs = ops.binop(e.op, a, b)
        return v

    def x_Compare(self, e):
        left = self.ev(e.left)
        out = []
        for op, rn in zip(e.ops, e.comparators):
            right = self.ev(rn)
            v, errs = ops.compare(op, left, right)
            out.append(ops._z(truth(v)))
            left = right
        return b2v(z3.And(out)) if len(out) > 1 else b2v(out[0])

    def x_IfExp(self, e):
        c = truth(self.ev(e.test))
        if isinstance(c, bool):
            return self.ev(e.body if c else e.orelse)
        return merge_values(c, self.ev(e.body), self.ev(e.orelse))

    def x_Call(self, e):
        if isinstance(e.func, ast.Name):
            n = e.func.id
            if n == "old":
                sub = Ctx(self.S, self.engine, self.pre, self.pre, self.old_scope())
                sub.fn_globals = self.fn_globals
                return sub.ev(e.args[0])
            if n == "len":
                return self.length(self.ev(e.args[0]))
            if n == "implies" and len(e.args) == 2:
                a = truth(self.ev(e.args[0]))
                if isinstance(a, bool):
                    return True if not a else b2v(ops._z(truth(self.ev(e.args[1]))))
                return b2v(z3.Implies(a, ops._z(truth(self.ev(e.args[1])))))
            if n == "min" or n == "max":
                a, b = [self.ev(x) for x in e.args]
                if not is_sym(a) and not is_sym(b):
                    return min(a, b) if n == "min" else max(a, b)
                if isinstance(a, SReal) or isinstance(b, SReal):
                    c = ops.zreal(a) <= ops.zreal(b)
                    return SReal(z3.If(c, ops.zreal(a), ops.zreal(b)) if n == "min" else z3.If(c, ops.zreal(b), ops.zreal(a)))
                c = zint(a) <= zint(b)
                return i2v(z3.If(c, zint(a), zint(b)) if n == "min" else z3.If(c, zint(b), zint(a)))
            if n in self.scope and callable(self.scope[n]):
                pass
            args = [self.ev(x) for x in e.args]
            if n in self.S.recs:
                return self.S.rec_app(self, self.S.recs[n], args)
            if n in self.S.funcs:
                return self.S.run_function(self, self.S.funcs[n], args)
            if n in self.S.lemmas:
                fn = self.S.lemmas[n]
                conv = [wrap_as(self.S.to_sort(a, srt), srt) for a, (_, srt) in zip(args, fn._spec_args)]
                return self.S.run_function(self, fn, conv)
            if n in self.S.prims:
                return self.S.prims[n](self, *args)
            if n == "bytes" and len(args) == 1 and isinstance(args[0], list):
                return SBytes(z3.Concat(*[z3.Unit(zint(x)) for x in args[0]])) if len(args[0]) > 1 else \
                    SBytes(z3.Unit(zint(args[0][0])))
            raise Unsupported("unknown spec function %r" % n)
        raise Unsupported("spec call form")

    def old_scope(self):
        # parameters keep their entry values in old(); locals are those of the pre-state
        sc = dict(self.scope)
        if self.pre is not None:
            for k, v in self.pre.env.items():
                sc[k] = v
            for k, v in self.pre.ghost.items():
                sc.setdefault(k, v)
        return sc

    def length(self, v):
        from .engine import Obj
        if isinstance(v, (SBytes, SStr)):
            return i2v(z3.Length(v.z))
        if isinstance(v, (SVL, SFset)):
            return self.S.rec_app(self, self.S.recs["vlen"], [SVL(v.z)])
        if isinstance(v, Obj) and v.kind == "joinlist":
            return self.engine.heap_get(self.st, v, "n")
        if not is_sym(v):
            return len(v)
        raise Unsupported("len of %r in spec" % (v,))
