"""z3 sorts and symbolic value wrappers used by the pyvc verification-condition generator.

Python ``int`` is mathematical Int.  ``bytes`` and ``str`` are both Seq(Int) (byte values /
code points); the Python-level wrapper class keeps them apart.  Dynamically typed values live
in the recursive datatype ``Val`` (cons-lists ``VL`` for tuple / frozenset items).
"""
import z3

Int = z3.IntSort()
Bool = z3.BoolSort()
Bytes = z3.SeqSort(Int)
_F64 = z3.Datatype("F64")          # a float is its 64-bit pattern (a datatype rather than an uninterpreted
_F64.declare("f64", ("bits", Int))  # sort: z3's SMT-LIB export does not declare sorts used inside datatypes)
F64 = _F64.create()

_Val = z3.Datatype("Val")
_VL = z3.Datatype("VL")
_Val.declare("VNone")
_Val.declare("VNotImpl")
_Val.declare("VEllipsis")
_Val.declare("VBool", ("vb", Bool))
_Val.declare("VInt", ("vi", Int))
_Val.declare("VFloat", ("vf", F64))
_Val.declare("VComplex", ("vre", F64), ("vim", F64))
_Val.declare("VBytes", ("vby", Bytes))
_Val.declare("VStr", ("vs", Bytes))
_Val.declare("VTuple", ("titems", _VL))
_Val.declare("VFset", ("fitems", _VL))
_Val.declare("VSlice", ("sstart", _Val), ("sstop", _Val), ("sstep", _Val))
_Val.declare("VRef", ("oid", Int))
_VL.declare("nil")
_VL.declare("cons", ("hd", _Val), ("tl", _VL))
Val, VL = z3.CreateDatatypes(_Val, _VL)

Real = z3.RealSort()
SORTS = {"real": Real, "int": Int, "bool": Bool, "bytes": Bytes, "str": Bytes, "val": Val, "vl": VL, "f64": F64}

# ---------------------------------------------------------------------------------------------
# type ids: typeof(v) for a Val.  Exact plain types get fixed small ids; every other class
# (the dynamic class of a VRef) is >= 100.
# ---------------------------------------------------------------------------------------------
import builtins as _b
PLAIN_TYPES = [type(None), type(NotImplemented), type(Ellipsis), bool, int, float, complex, bytes, str,
               tuple, frozenset, slice]
TYPE_ID = {t: i for i, t in enumerate(PLAIN_TYPES)}
_other_type_ids = {}


def type_id(t):
    """Stable integer id of a concrete Python class."""
    if t in TYPE_ID:
        return TYPE_ID[t]
    if t not in _other_type_ids:
        _other_type_ids[t] = 100 + len(_other_type_ids)
    return _other_type_ids[t]


class_of = z3.Function("class_of", Int, Int)       # dynamic class id of a heap object


def typeof(v):
    """Type id of a Val term, as an Int term."""
    T = TYPE_ID
    return z3.If(Val.is_VNone(v), T[type(None)],
           z3.If(Val.is_VNotImpl(v), T[type(NotImplemented)],
           z3.If(Val.is_VEllipsis(v), T[type(Ellipsis)],
           z3.If(Val.is_VBool(v), T[bool],
           z3.If(Val.is_VInt(v), T[int],
           z3.If(Val.is_VFloat(v), T[float],
           z3.If(Val.is_VComplex(v), T[complex],
           z3.If(Val.is_VBytes(v), T[bytes],
           z3.If(Val.is_VStr(v), T[str],
           z3.If(Val.is_VTuple(v), T[tuple],
           z3.If(Val.is_VFset(v), T[frozenset],
           z3.If(Val.is_VSlice(v), T[slice],
                 class_of(Val.oid(v))))))))))))))


def typeof_axiom(v):
    """class ids of heap objects never collide with the exact plain types."""
    return z3.Implies(Val.is_VRef(v), class_of(Val.oid(v)) >= 100)


# ---------------------------------------------------------------------------------------------
# symbolic value wrappers
# ---------------------------------------------------------------------------------------------
class HeapRef(object):
    """base class of engine heap objects (identity = oid_term())"""
    __slots__ = ()


class Sym(object):
    __slots__ = ("z",)
    kind = "?"

    def __init__(self, z):
        self.z = z

    def __repr__(self):
        return "%s(%s)" % (type(self).__name__, self.z)

    # guard against accidental truth tests of symbolic values inside the engine
    def __bool__(self):
        raise TypeError("truth value of symbolic %r used by the engine" % (self,))


class SInt(Sym):
    kind = "int"


class SBool(Sym):
    kind = "bool"


class SBytes(Sym):
    kind = "bytes"


class SStr(Sym):
    kind = "str"


class SF64(Sym):
    kind = "f64"


class SReal(Sym):
    """a point in time / a duration: floats used for time are treated as mathematical reals (stated assumption)"""
    kind = "real"


class SVal(Sym):
    kind = "val"


class SVL(Sym):
    """a cons-list of Val: the item list of a symbolic tuple (only in specs / ghost code)"""
    kind = "vl"


WRAP = {"real": SReal, "int": SInt, "bool": SBool, "bytes": SBytes, "str": SStr, "val": SVal, "vl": SVL, "f64": SF64}


def wrap_sort(z):
    s = z.sort()
    if s == Int:
        return SInt(z)
    if s == Bool:
        return SBool(z)
    if s == Val:
        return SVal(z)
    if s == VL:
        return SVL(z)
    if s == F64:
        return SF64(z)
    if s == Bytes:
        return SBytes(z)
    if s == Real:
        return SReal(z)
    raise TypeError("no wrapper for sort %s" % s)


def seq_lit(data):
    """Seq(Int) literal from bytes / str / list of ints"""
    if isinstance(data, str):
        data = [ord(c) for c in data]
    data = list(data)
    if not data:
        return z3.Empty(Bytes)
    if len(data) == 1:
        return z3.Unit(z3.IntVal(data[0]))
    return z3.Concat(*[z3.Unit(z3.IntVal(c)) for c in data])


_fresh_counter = [0]


def fresh(prefix, sort):
    _fresh_counter[0] += 1
    return z3.Const("%s!%d" % (prefix, _fresh_counter[0]), sort)


def reset_fresh():
    _fresh_counter[0] = 0
