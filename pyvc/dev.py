"""development driver: verify selected functions and print the verdicts"""
import sys, os, time, importlib
REPO = os.environ.get("PYVC_REPO", "/repo")
sys.path.insert(0, REPO)
sys.path.insert(0, os.path.dirname(os.path.dirname(os.path.abspath(__file__))))
from pyvc import engine, specenv, libmodels, store, solve, tables


def build(table="module"):
    import rpyc.core.brine as brine
    S = specenv.SpecEnv()
    import spec.brine_spec as bs
    import spec.channel_spec as cs
    S.load_module(bs)
    S.load_module(cs)
    import spec.policy_spec as ps
    S.load_module(ps)
    import spec.refcount_spec as rs
    S.load_module(rs)
    import spec.protocol_spec as prs
    S.load_module(prs)
    import spec.box_spec as bxs
    S.load_module(bxs)
    import spec.netref_spec as nrs
    S.load_module(nrs)
    import spec.vinegar_spec as vgs
    S.load_module(vgs)
    import spec.registry_spec as rgs
    S.load_module(rgs)
    import spec.server_spec as svs
    S.load_module(svs)
    import rpyc.core.channel as ch
    S.consts["C"] = tables.frame_consts_from_module(ch)
    import rpyc.core.stream as stream_mod
    S.consts["ClosedFile"] = stream_mod.ClosedFile
    import errno
    S.consts["errno"] = errno_mod if "errno_mod" in dir() else __import__("errno")
    import rpyc.core.protocol as protocol_mod, rpyc.core.consts as consts_mod
    S.consts["HANDLERS"] = protocol_mod.Connection._request_handlers()
    import rpyc.version as version_mod
    S.consts["VERSION_STRING"] = version_mod.version_string
    S.consts["VERSION_MAJOR"] = str(version_mod.version[0])
    import builtins as builtins_mod
    S.consts["BUILTINS_NAME"] = builtins_mod.__name__
    S.consts["BUILTINS_MODULE"] = builtins_mod
    S.consts["TRUE"], S.consts["FALSE"] = True, False
    for _k, _v in vars(consts_mod).items():
        if _k.isupper():
            S.consts[_k] = _v
    T = tables.from_module(brine) if table == "module" else tables.from_reference()
    S.consts["T"] = T
    S.consts["PERM_INVARIANT"] = bs.PERM_INVARIANT
    st = store.Store()
    for m in ("brine", "compat", "externals", "stream", "channel", "protocol_attr", "colls", "protocol_box", "protocol_core", "async_", "protocol_close", "lib", "netref", "protocol_handlers", "scenarios", "vinegar", "classic", "registry", "server", "protocol_init", "helpers", "service"):
        importlib.import_module("contracts." + m).register(st)
    lib = libmodels.Lib(S)
    ex = engine.Executor(st, REPO, S, lib)
    ex.pre_oid_mark = 10 ** 9
    ex.oid_names = {}
    return ex


if __name__ == "__main__":
    ex = build()
    names = sys.argv[1:]
    t0 = time.time()
    for target, c in ex.store.contracts.items():
        if names and not any(n == c.qualname or n == target for n in names):
            continue
        if c.inline or c.trusted:
            continue
        for b in c.behaviours:
            if c.behaviours[b].trusted:
                continue
            if os.environ.get("BEH") and b not in os.environ["BEH"].split(","):
                continue
            try:
                n = ex.verify(c, b)
                print("%-40s %-10s paths=%d" % (c.qualname, b, n))
            except (engine.Unsupported, engine.CheckerError) as e:
                print("%-40s %-10s ERROR %s: %s" % (c.qualname, b, type(e).__name__, e))
    print("generated %d obligations in %.2fs" % (len(ex.obligations), time.time() - t0))
    t0 = time.time()
    res = solve.discharge_all(ex.obligations, "/verif/out/smt", timeout=int(os.environ.get("T", "10")))
    bad = 0
    for o, r in zip(ex.obligations, res):
        if r["verdict"] != "unsat":
            bad += 1
            print("  %-8s %s  %s %s" % (r["verdict"], o.id, r["times"], r["file"]))
    print("%d/%d discharged in %.1fs" % (len(res) - bad, len(res), time.time() - t0))
    t0 = time.time()
    badc, n = solve.check_canaries(ex.canaries, "/verif/out/smt/canary")
    for cid, why in badc:
        print("  CONTRADICTION %s: %s" % (cid, why))
    print("%d canaries, %d contradictory, %.1fs" % (n, len(badc), time.time() - t0))
