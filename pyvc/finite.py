"""Finite, exhaustive checks (enumeration, not SMT): each returns a list of
{"id", "ok", "detail"} records that the runner counts as obligations discharged by enumeration.
They run in a child process of the repository's interpreter on the tree being checked."""
import json
import os
import subprocess

VERIF = os.path.dirname(os.path.dirname(os.path.abspath(__file__)))

_WIRE = r'''
import sys, json
sys.path.insert(0, sys.argv[1]); sys.path.insert(0, sys.argv[2])
ref = json.load(open(sys.argv[3]))
from rpyc.core import brine, consts, channel
out = []
def rec(i, ok, detail=""):
    out.append({"id": "finite:" + i, "ok": bool(ok), "detail": detail})
for name, val in ref["tags"].items():
    cur = getattr(brine, "TAG_" + name, None)
    rec("tag:" + name, cur == bytes([val]), "TAG_%s is %r, published value is %r" % (name, cur, bytes([val])))
cur_tags = sorted(k[4:] for k in vars(brine) if k.startswith("TAG_"))
rec("tag-set", cur_tags == sorted(ref["tags"]), "tag names %r" % (sorted(set(cur_tags) ^ set(ref["tags"])),))
lo, hi, off = ref["imm_lo"], ref["imm_hi"], ref["imm_off"]
want = {i: bytes([i + off]) for i in range(lo, hi)}
bad = sorted(set(want.items()) ^ set(brine.IMM_INTS.items()))[:3]
rec("imm-ints-table", brine.IMM_INTS == want, "IMM_INTS differs from the published immediate range [%d, %d) + 0x%x at %r" % (lo, hi, off, bad))
rec("imm-ints-loader-inverse", brine.IMM_INTS_LOADER == {v: k for k, v in want.items()}, "IMM_INTS_LOADER is not the inverse of the published table")
for n, fmt in ref["structs"].items():
    cur = getattr(brine, n).format
    cur = cur.decode() if isinstance(cur, bytes) else cur
    rec("struct:" + n, cur == fmt, "%s.format is %r, published %r" % (n, cur, fmt))
fh = channel.Channel.FRAME_HEADER.format
fh = fh.decode() if isinstance(fh, bytes) else fh
rec("frame:header", fh == ref["frame"]["header"], "FRAME_HEADER is %r, published %r" % (fh, ref["frame"]["header"]))
rec("frame:flusher", channel.Channel.FLUSHER == bytes(ref["frame"]["flusher"]), "FLUSHER is %r" % (channel.Channel.FLUSHER,))
rec("frame:threshold", channel.Channel.COMPRESSION_THRESHOLD == ref["frame"]["compression_threshold"],
    "COMPRESSION_THRESHOLD is %r, published %r" % (channel.Channel.COMPRESSION_THRESHOLD, ref["frame"]["compression_threshold"]))
for name, val in ref["consts"].items():
    cur = getattr(consts, name, None)
    rec("const:" + name, cur == val and type(cur) is int, "consts.%s is %r, published value is %r" % (name, cur, val))
cur_consts = sorted(k for k, v in vars(consts).items() if k.isupper() and isinstance(v, int) and k != "STREAM_CHUNK")
rec("const-set", cur_consts == sorted(ref["consts"]), "constant names differ: %r" % (sorted(set(cur_consts) ^ set(ref["consts"])),))
types = sorted(t.__name__ for t in brine._dump_registry)
rec("dump-registry-types", types == sorted(ref["dump_types"]), "dump registry types %r" % (types,))
load_keys = sorted(brine._load_registry)
rec("load-registry-keys", load_keys == sorted(bytes([v]) for v in ref["tags"].values()), "load registry keys differ from the published tag set")
# golden vectors: the spec function instantiated with the reference table must reproduce them (sanity of the spec)
import spec.brine_spec as bs
from pyvc import tables
bs.T = tables.from_reference(sys.argv[3])
glob = {"slice": slice, "frozenset": frozenset, "Ellipsis": Ellipsis, "NotImplemented": NotImplemented, "inf": float("inf"), "nan": float("nan")}
n_ok = 0
for g in ref["golden"]:
    v = eval(g["value"], glob)
    try:
        ok = bs.enc(v).hex() == g["hex"]
    except Exception as e:
        ok = False
    n_ok += ok
    if not ok:
        rec("golden-spec:" + g["value"][:40], False, "spec enc() with the reference table does not reproduce the golden vector")
rec("golden-spec", n_ok == len(ref["golden"]), "%d/%d golden vectors reproduced by the spec" % (n_ok, len(ref["golden"])))
print(json.dumps(out))
'''


def wire_constants(repo):
    ref = os.path.join(VERIF, "spec", "wire_5x.json")
    p = subprocess.run(["/venv/bin/python", "-c", _WIRE, repo, VERIF, ref], capture_output=True, text=True, timeout=120)
    if p.returncode != 0:
        return [{"id": "finite:wire-constants", "ok": False, "detail": "enumeration crashed: " + (p.stderr or "")[-500:]}]
    return json.loads(p.stdout.strip().splitlines()[-1])
