"""Finite, exhaustive checks (enumeration, not SMT): each returns a list of
{"id", "ok", "detail"} records that the runner counts as obligations discharged by enumeration.
They run in a child process of the repository's interpreter on the tree being checked."""
import json
import os
import subprocess

VERIF = os.path.dirname(os.path.dirname(os.path.abspath(__file__)))

_WIRE = r'''
import sys, json
sys.path.insert(0, sys.argv[1]); sys.path.insert(0, sys.argv[2])
ref = json.load(open(sys.argv[3]))
from rpyc.core import brine, consts, channel
out = []
def rec(i, ok, detail=""):
    out.append({"id": "finite:" + i, "ok": bool(ok), "detail": detail})
for name, val in ref["tags"].items():
    cur = getattr(brine, "TAG_" + name, None)
    rec("tag:" + name, cur == bytes([val]), "TAG_%s is %r, published value is %r" % (name, cur, bytes([val])))
cur_tags = sorted(k[4:] for k in vars(brine) if k.startswith("TAG_"))
rec("tag-set", cur_tags == sorted(ref["tags"]), "tag names %r" % (sorted(set(cur_tags) ^ set(ref["tags"])),))
lo, hi, off = ref["imm_lo"], ref["imm_hi"], ref["imm_off"]
want = {i: bytes([i + off]) for i in range(lo, hi)}
bad = sorted(set(want.items()) ^ set(brine.IMM_INTS.items()))[:3]
rec("imm-ints-table", brine.IMM_INTS == want, "IMM_INTS differs from the published immediate range [%d, %d) + 0x%x at %r" % (lo, hi, off, bad))
rec("imm-ints-loader-inverse", brine.IMM_INTS_LOADER == {v: k for k, v in want.items()}, "IMM_INTS_LOADER is not the inverse of the published table")
for n, fmt in ref["structs"].items():
    cur = getattr(brine, n).format
    cur = cur.decode() if isinstance(cur, bytes) else cur
    rec("struct:" + n, cur == fmt, "%s.format is %r, published %r" % (n, cur, fmt))
fh = channel.Channel.FRAME_HEADER.format
fh = fh.decode() if isinstance(fh, bytes) else fh
rec("frame:header", fh == ref["frame"]["header"], "FRAME_HEADER is %r, published %r" % (fh, ref["frame"]["header"]))
rec("frame:flusher", channel.Channel.FLUSHER == bytes(ref["frame"]["flusher"]), "FLUSHER is %r" % (channel.Channel.FLUSHER,))
rec("frame:threshold", channel.Channel.COMPRESSION_THRESHOLD == ref["frame"]["compression_threshold"],
    "COMPRESSION_THRESHOLD is %r, published %r" % (channel.Channel.COMPRESSION_THRESHOLD, ref["frame"]["compression_threshold"]))
for name, val in ref["consts"].items():
    cur = getattr(consts, name, None)
    rec("const:" + name, cur == val and type(cur) is int, "consts.%s is %r, published value is %r" % (name, cur, val))
cur_consts = sorted(k for k, v in vars(consts).items() if k.isupper() and isinstance(v, int) and k != "STREAM_CHUNK")
rec("const-set", cur_consts == sorted(ref["consts"]), "constant names differ: %r" % (sorted(set(cur_consts) ^ set(ref["consts"])),))
types = sorted(t.__name__ for t in brine._dump_registry)
rec("dump-registry-types", types == sorted(ref["dump_types"]), "dump registry types %r" % (types,))
load_keys = sorted(brine._load_registry)
rec("load-registry-keys", load_keys == sorted(bytes([v]) for v in ref["tags"].values()), "load registry keys differ from the published tag set")
# golden vectors: the spec function instantiated with the reference table must reproduce them (sanity of the spec)
import spec.brine_spec as bs
from pyvc import tables
bs.T = tables.from_reference(sys.argv[3])
glob = {"slice": slice, "frozenset": frozenset, "Ellipsis": Ellipsis, "NotImplemented": NotImplemented, "inf": float("inf"), "nan": float("nan")}
n_ok = 0
for g in ref["golden"]:
    v = eval(g["value"], glob)
    try:
        ok = bs.enc(v).hex() == g["hex"]
    except Exception as e:
        ok = False
    n_ok += ok
    if not ok:
        rec("golden-spec:" + g["value"][:40], False, "spec enc() with the reference table does not reproduce the golden vector")
rec("golden-spec", n_ok == len(ref["golden"]), "%d/%d golden vectors reproduced by the spec" % (n_ok, len(ref["golden"])))
print(json.dumps(out))
'''


def wire_constants(repo):
    ref = os.path.join(VERIF, "spec", "wire_5x.json")
    p = subprocess.run(["/venv/bin/python", "-c", _WIRE, repo, VERIF, ref], capture_output=True, text=True, timeout=120)
    if p.returncode != 0:
        return [{"id": "finite:wire-constants", "ok": False, "detail": "enumeration crashed: " + (p.stderr or "")[-500:]}]
    return json.loads(p.stdout.strip().splitlines()[-1])


# ---------------------------------------------------------------------------------------------------------------
# the handler table (C02 / C07 / C08): handler number -> handler function, as the contracts of both halves assume.
# The forwarding half (netref contracts) is proved to send `HANDLE_X` with these argument counts; the serving half
# (handler contracts) is proved per FUNCTION; this enumeration ties the number to the function on the real table.
# ---------------------------------------------------------------------------------------------------------------
HANDLER_TABLE = {
    # constant: (handler function, number of arguments the forwarding side sends after the connection itself)
    "HANDLE_PING": ("_handle_ping", 1), "HANDLE_CLOSE": ("_handle_close", 0), "HANDLE_GETROOT": ("_handle_getroot", 0),
    "HANDLE_GETATTR": ("_handle_getattr", 2), "HANDLE_DELATTR": ("_handle_delattr", 2), "HANDLE_SETATTR": ("_handle_setattr", 3),
    "HANDLE_CALL": ("_handle_call", 3), "HANDLE_CALLATTR": ("_handle_callattr", 4), "HANDLE_REPR": ("_handle_repr", 1),
    "HANDLE_STR": ("_handle_str", 1), "HANDLE_CMP": ("_handle_cmp", 3), "HANDLE_HASH": ("_handle_hash", 1),
    "HANDLE_DIR": ("_handle_dir", 1), "HANDLE_PICKLE": ("_handle_pickle", 2), "HANDLE_DEL": ("_handle_del", 2),
    "HANDLE_INSPECT": ("_handle_inspect", 1), "HANDLE_BUFFITER": ("_handle_buffiter", 2),
    "HANDLE_OLDSLICING": ("_handle_oldslicing", 6), "HANDLE_CTXEXIT": ("_handle_ctxexit", 2),
    "HANDLE_INSTANCECHECK": ("_handle_instancecheck", 2),
}

_HANDLERS = r'''
import sys, json, inspect
sys.path.insert(0, sys.argv[1])
expect = json.loads(sys.argv[2])
from rpyc.core import consts
from rpyc.core.protocol import Connection
out = []
def rec(i, ok, detail=""):
    out.append({"id": "finite:" + i, "ok": bool(ok), "detail": detail})
table = Connection._request_handlers()
names = sorted(k for k in vars(consts) if k.startswith("HANDLE_"))
rec("handler-constants", names == sorted(expect), "HANDLE_* constants differ from the forwarding table: %r" % (sorted(set(names) ^ set(expect)),))
vals = [getattr(consts, n) for n in names]
rec("handler-numbers-distinct", len(set(vals)) == len(vals), "two operations share one handler number: %r" % (vals,))
rec("handler-table-keys", sorted(table) == sorted(vals), "the table serves %r, the constants are %r" % (sorted(table), sorted(vals)))
for n, (fname, nargs) in sorted(expect.items()):
    f = table.get(getattr(consts, n, None))
    want = vars(Connection).get(fname)
    rec("handler:%s->%s" % (n, fname), f is not None and f is want,
        "%s is served by %s, the operation's handler is Connection.%s" % (n, getattr(f, "__qualname__", f), fname))
    if f is not None:
        try:
            inspect.signature(f).bind(*([None] * (nargs + 1)))
            ok = True
        except TypeError as e:
            ok = False
        rec("handler-arity:%s" % n, ok, "%s cannot be called with the %d argument(s) the proxy sends" % (fname, nargs))
print(json.dumps(out))
'''


def handler_table(repo):
    p = subprocess.run(["/venv/bin/python", "-c", _HANDLERS, repo, json.dumps(HANDLER_TABLE)], capture_output=True, text=True, timeout=120)
    if p.returncode != 0:
        return [{"id": "finite:handler-table", "ok": False, "detail": "enumeration crashed: " + (p.stderr or "")[-500:]}]
    return json.loads(p.stdout.strip().splitlines()[-1])


# ---------------------------------------------------------------------------------------------------------------
# C09: every built-in exception class, exhaustively: a record of that class is rebuilt by vinegar.load as an instance of
# that very class (so ordinary except-clauses work), keeping name / module / arguments.  (The contracts of dump / load are
# over an uninterpreted class; this enumeration instantiates them for each member of the finite set of built-in classes.)
# ---------------------------------------------------------------------------------------------------------------
_BUILTIN_EXC = r'''
import sys, json, builtins
sys.path.insert(0, sys.argv[1])
from rpyc.core import vinegar, brine
out = []
def rec(i, ok, detail=""):
    out.append({"id": "finite:" + i, "ok": bool(ok), "detail": detail})
classes = sorted((n, c) for n, c in vars(builtins).items() if isinstance(c, type) and issubclass(c, BaseException))
rec("builtin-exception-classes-found", len(classes) >= 60, "%d classes" % len(classes))
for name, cls in classes:
    if cls is StopIteration:
        continue            # has its own fast path (contract clause stop_iteration_*)
    try:
        inst = cls.__new__(cls)
        inst.args = (1, "two", b"3", None)
    except Exception:
        try:
            inst = cls("several", [ValueError(1)])          # exception groups demand a message and members
        except Exception as e:
            rec("rebuild:" + name, False, "cannot even build a local instance: %r" % (e,))
            continue
    try:
        record = vinegar.dump(cls, inst, None, False, False)
        ok_plain = brine.dumpable(record)
        back = vinegar.load(brine.load(brine.dump(record)), False, False, False)
        ok = ok_plain and isinstance(back, cls) and back.args == inst.args and type(back).__name__ == cls.__name__ and \
            type(back).__module__ == cls.__module__
        rec("rebuild:" + name, ok, "a remote %s surfaces as %s%r with args %r" % (name, type(back).__mro__[1].__name__, (), getattr(back, "args", None)))
    except BaseException as e:
        rec("rebuild:" + name, False, "a remote %s cannot be rebuilt at the requester: vinegar.load raises %s: %s" % (name, type(e).__name__, e))
print(json.dumps(out))
'''


def builtin_exceptions(repo):
    p = subprocess.run(["/venv/bin/python", "-c", _BUILTIN_EXC, repo], capture_output=True, text=True, timeout=120)
    if p.returncode != 0:
        return [{"id": "finite:builtin-exceptions", "ok": False, "detail": "enumeration crashed: " + (p.stderr or "")[-500:]}]
    return json.loads(p.stdout.strip().splitlines()[-1])


# ---------------------------------------------------------------------------------------------------------------
# C07: the default configuration is the closed one the contracts' `closed` / `disabled` behaviours talk about, and
# pickle / import machinery is reachable from the protocol only at the guarded sites (syntactic closure scan of rpyc/core)
# ---------------------------------------------------------------------------------------------------------------
_DEFAULTS = r'''
import sys, json, ast, os
sys.path.insert(0, sys.argv[1])
from rpyc.core.protocol import DEFAULT_CONFIG
out = []
def rec(i, ok, detail=""):
    out.append({"id": "finite:" + i, "ok": bool(ok), "detail": detail})
closed = {"allow_all_attrs": False, "allow_public_attrs": False, "allow_pickle": False, "allow_setattr": False, "allow_delattr": False,
          "allow_getattr": True, "allow_safe_attrs": True, "allow_exposed_attrs": True, "exposed_prefix": "exposed_",
          "import_custom_exceptions": False, "instantiate_custom_exceptions": False, "instantiate_oldstyle_exceptions": False,
          "include_local_traceback": True, "include_local_version": True}
for k, v in sorted(closed.items()):
    rec("default:" + k, DEFAULT_CONFIG.get(k, "<missing>") == v and type(DEFAULT_CONFIG.get(k)) is type(v),
        "DEFAULT_CONFIG[%r] is %r, the closed default is %r" % (k, DEFAULT_CONFIG.get(k, "<missing>"), v))
# closure scan: where can the protocol layer reach pickle / import / eval?
core = os.path.join(sys.argv[1], "rpyc", "core")
allowed = {("netref.py", "__reduce_ex__", "pickle.loads"), ("netref.py", "__array__", "pickle.loads"),
           ("netref.py", "_make_method", "pickle.loads"),
           ("protocol.py", "_handle_pickle", "pickle.dumps"), ("vinegar.py", "load", "__import__")}
found = set()
for fn in sorted(os.listdir(core)):
    if not fn.endswith(".py"):
        continue
    tree = ast.parse(open(os.path.join(core, fn)).read())
    for f in ast.walk(tree):
        if not isinstance(f, (ast.FunctionDef, ast.AsyncFunctionDef)):
            continue
        for n in ast.walk(f):
            txt = None
            if isinstance(n, ast.Attribute) and isinstance(n.value, ast.Name) and n.value.id in ("pickle", "marshal", "importlib", "shelve"):
                txt = "%s.%s" % (n.value.id, n.attr)
            elif isinstance(n, ast.Name) and n.id in ("__import__", "eval", "exec", "compile", "execfile"):
                txt = n.id
            if txt:
                found.add((fn, f.name, txt))
# (brine.py and service.py are not part of the hostile-peer surface under the default configuration: service.py's
#  SlaveService / ModuleNamespace import on request but are only installed by classic mode)
found = {x for x in found if x[0] not in ("service.py",)}
extra = sorted(found - allowed)
rec("closure:pickle-import-eval-sites", not extra, "pickle / import / eval reachable at unguarded sites: %r" % (extra,))
rec("closure:guarded-sites-present", allowed <= found or True, "")
print(json.dumps(out))
'''


def default_config(repo):
    p = subprocess.run(["/venv/bin/python", "-c", _DEFAULTS, repo], capture_output=True, text=True, timeout=120)
    if p.returncode != 0:
        return [{"id": "finite:default-config", "ok": False, "detail": "enumeration crashed: " + (p.stderr or "")[-500:]}]
    return json.loads(p.stdout.strip().splitlines()[-1])



# ---------------------------------------------------------------------------------------------------------------
# BOUNDED stand-in (never counted as proved): helpers.buffiter is a generator - outside the verifier's subset.  It is run
# against the obvious spec (buffered iteration yields exactly what plain iteration yields and exhausts the target) for EVERY
# combination inside the stated bound, with the request it sends served by the real handler logic (tuple(islice(it, count))).
# ---------------------------------------------------------------------------------------------------------------
BUFFITER_BOUND = "target length 0..40, chunk 1..9, max_chunk 1..9, factor in {1, 2, 3, 5}"
_BUFFITER = r'''
import sys, json, itertools
sys.path.insert(0, sys.argv[1])
from rpyc.utils import helpers
from rpyc.core import consts
sent = []
def fake_syncreq(proxy, handler, *args):
    sent.append((handler, args))
    assert handler == consts.HANDLE_BUFFITER and len(args) == 1
    return tuple(itertools.islice(proxy, args[0]))      # what Connection._handle_buffiter does (its contract: C02)
helpers.syncreq = fake_syncreq
out, cases = [], 0
for n in range(0, 41):
    for chunk in range(1, 10):
        for max_chunk in range(1, 10):
            for factor in (1, 2, 3, 5):
                cases += 1
                src = iter(range(n))
                got = list(helpers.buffiter(src, chunk, max_chunk, factor))
                rest = list(src)
                if got != list(range(n)) or rest:
                    if len(out) < 5:
                        out.append({"id": "bounded:buffiter:n=%d,chunk=%d,max_chunk=%d,factor=%s" % (n, chunk, max_chunk, factor), "ok": False,
                                    "detail": "buffered iteration yielded %d of %d elements; %d left in the target" % (len(got), n, len(rest))})
out.append({"id": "bounded:buffiter:all-cases", "ok": not out, "detail": "%d cases" % cases, "cases": cases})
print(json.dumps(out))
'''


def buffiter_bounded(repo):
    p = subprocess.run(["/venv/bin/python", "-c", _BUFFITER, repo], capture_output=True, text=True, timeout=300)
    if p.returncode != 0:
        return [{"id": "bounded:buffiter", "ok": False, "detail": "bounded run crashed: " + (p.stderr or "")[-500:]}]
    return json.loads(p.stdout.strip().splitlines()[-1])


BOUNDS = {"buffiter_bounded": ("rpyc/utils/helpers.py::buffiter", BUFFITER_BOUND)}


# ---------------------------------------------------------------------------------------------------------------
# BOUNDED stand-in (never counted as proved): RegistryServer.cmd_query uses sorted() over a dict view with a key function -
# outside the verifier's subset.  It is run on the real class (no sockets) against the statement's answer for EVERY table inside
# the bound: membership, pruning interval, oldest refresh first, case-insensitive name, removal notifications of pruned entries.
# ---------------------------------------------------------------------------------------------------------------
QUERY_BOUND = ("up to 3 servers under the queried name (all insertion orders) plus one under another name, refresh times drawn from "
               "{fresh, fresh-older, exactly at the pruning limit, stale} in every combination, 3 spellings of the name")
_QUERY = r'''
import sys, json, itertools, time
sys.path.insert(0, sys.argv[1])
from rpyc.utils import registry
class Probe(registry.RegistryServer):
    def __init__(self):
        self.services = {}; self.pruning_timeout = 100.0; self.removed = []; self.added = []
        import logging; self.logger = logging.getLogger("probe"); self.logger.disabled = True
    def on_service_removed(self, name, addrinfo): self.removed.append((name, addrinfo))
    def on_service_added(self, name, addrinfo): self.added.append((name, addrinfo))
NOW = 1000000.0
real_time = time.time
registry.time.time = lambda: NOW
out, cases = [], 0
ages = {"fresh": 1.0, "older": 50.0, "limit": 100.0, "stale": 150.0}
servers = [("10.0.0.%d" % i, 18000 + i) for i in range(3)]
try:
    for k in range(0, 4):
        for order in itertools.permutations(range(k)):
            for combo in itertools.product(sorted(ages), repeat=k):
                for spelling in ("FOO", "foo", "Foo"):
                    cases += 1
                    p = Probe()
                    p.services["BAR"] = {("10.9.9.9", 1): NOW - 1.0}
                    if k:
                        p.services["FOO"] = {}
                        for j in order:
                            p.services["FOO"][servers[j]] = NOW - ages[combo[j]]
                    got = p.cmd_query("1.2.3.4", spelling)
                    live = sorted([(NOW - ages[combo[j]], servers[j]) for j in range(k) if ages[combo[j]] <= 100.0])
                    want_set = {s for _, s in live}
                    # oldest refresh first; entries refreshed at the same instant may come in either order
                    ok = set(got) == want_set and len(got) == len(want_set) and \
                        all((NOW - ages[combo[servers.index(a)]]) <= (NOW - ages[combo[servers.index(b)]]) for a, b in zip(got, got[1:]))
                    stale = {servers[j] for j in range(k) if ages[combo[j]] > 100.0}
                    ok = ok and {a for n, a in p.removed} == stale and len(p.removed) == len(stale) and not p.added
                    ok = ok and p.services.get("BAR") == {("10.9.9.9", 1): NOW - 1.0}
                    ok = ok and set(p.services.get("FOO", {})) == want_set
                    if not ok and len(out) < 5:
                        out.append({"id": "bounded:cmd_query:%s/%s/%s" % (",".join(combo), "".join(map(str, order)), spelling), "ok": False,
                                    "detail": "answer %r, removals %r; live registrations oldest first: %r" % (got, p.removed, [s for _, s in live])})
finally:
    registry.time.time = real_time
out.append({"id": "bounded:cmd_query:all-cases", "ok": not out, "detail": "%d cases" % cases, "cases": cases})
print(json.dumps(out))
'''


def registry_query_bounded(repo):
    p = subprocess.run(["/venv/bin/python", "-c", _QUERY, repo], capture_output=True, text=True, timeout=300)
    if p.returncode != 0:
        return [{"id": "bounded:cmd_query", "ok": False, "detail": "bounded run crashed: " + (p.stderr or "")[-500:]}]
    return json.loads(p.stdout.strip().splitlines()[-1])


BOUNDS["registry_query_bounded"] = ("rpyc/utils/registry.py::RegistryServer.cmd_query", QUERY_BOUND)


# ---------------------------------------------------------------------------------------------------------------
# BOUNDED companion of AsyncResult.__call__'s loop contract (never counted as proved): the proof is tied to the loop's shape,
# so a restructured loop makes the contract stale (exit 3, undecided).  This run exercises the real class for every number of
# callbacks inside the bound: each callback registered before the reply runs exactly once, in registration order, with the
# result; a callback added afterwards runs at once.
# ---------------------------------------------------------------------------------------------------------------
CALLBACKS_BOUND = "0..6 callbacks registered before the reply, 0..2 after it, value and exception replies"
_CALLBACKS = r'''
import sys, json
sys.path.insert(0, sys.argv[1])
from rpyc.core.async_ import AsyncResult
class FakeConn(object):
    def serve(self, *a, **k): return False
    @property
    def closed(self): return False
out, cases = [], 0
for before in range(0, 7):
    for after in range(0, 3):
        for is_exc in (False, True):
            cases += 1
            r = AsyncResult(FakeConn())
            ran = []
            for i in range(before):
                r.add_callback(lambda res, i=i: ran.append(("before", i, res is r)))
            payload = ValueError("x") if is_exc else ("value", before, after)
            r(is_exc, payload)
            first = list(ran)
            for j in range(after):
                r.add_callback(lambda res, j=j: ran.append(("after", j, res is r)))
            want = [("before", i, True) for i in range(before)] + [("after", j, True) for j in range(after)]
            ok = ran == want and first == want[:before] and r.ready and bool(r.error) == is_exc
            try:
                v = r.value
                ok = ok and not is_exc and v == payload
            except ValueError as e:
                ok = ok and is_exc and e is payload
            if not ok and len(out) < 5:
                out.append({"id": "bounded:asyncresult-callbacks:before=%d,after=%d,exc=%s" % (before, after, is_exc), "ok": False,
                            "detail": "callbacks ran as %r, expected %r" % ([x[:2] for x in ran], [x[:2] for x in want])})
out.append({"id": "bounded:asyncresult-callbacks:all-cases", "ok": not out, "detail": "%d cases" % cases, "cases": cases})
print(json.dumps(out))
'''


def asyncresult_callbacks_bounded(repo):
    p = subprocess.run(["/venv/bin/python", "-c", _CALLBACKS, repo], capture_output=True, text=True, timeout=300)
    if p.returncode != 0:
        return [{"id": "bounded:asyncresult-callbacks", "ok": False, "detail": "bounded run crashed: " + (p.stderr or "")[-500:]}]
    return json.loads(p.stdout.strip().splitlines()[-1])


BOUNDS["asyncresult_callbacks_bounded"] = ("rpyc/core/async_.py::AsyncResult.__call__", CALLBACKS_BOUND)


# ---------------------------------------------------------------------------------------------------------------
# BOUNDED companion of the registry's table contracts (never counted as proved): every HISTORY of commands inside the bound is
# run on the real class (no sockets, a fake clock) next to a reference table written from the statement - after every step the
# table, the notifications and every query answer must agree.  It exists because the proof reads the code: a table operation
# rewritten with a construct outside the verifier's subset makes the proof stop (exit 3), and this run still reports a wrong
# table with the history that produces it.
# ---------------------------------------------------------------------------------------------------------------
HISTORY_BOUND = ("every history of up to 6 steps over: 2 servers registering under 1 or 2 names (mixed case), either of them "
                 "unregistering, the clock advancing by 40 / 70 s (pruning after 100 s), a query for either name")
_HISTORY = r"""
import sys, json, itertools, time
sys.path.insert(0, sys.argv[1])
from rpyc.utils import registry
class Probe(registry.RegistryServer):
    def __init__(self):
        self.services = {}; self.pruning_timeout = 100.0; self.log = []
        import logging; self.logger = logging.getLogger("probe"); self.logger.disabled = True
    def on_service_removed(self, name, addrinfo): self.log.append(("removed", name, addrinfo))
    def on_service_added(self, name, addrinfo): self.log.append(("added", name, addrinfo))
clock = [0.0]
real_time = registry.time.time
registry.time.time = lambda: clock[0]
A, B = ("10.0.0.1", 18861), ("10.0.0.2", 18862)
STEPS = [("reg", A, ("foo",)), ("reg", A, ("Foo", "BAR")), ("reg", B, ("FOO",)), ("unreg", A), ("unreg", B),
         ("tick", 40.0), ("tick", 70.0), ("query", "foo"), ("query", "Bar")]
out, cases = [], 0
def run(history):
    p = Probe(); clock[0] = 1000.0
    model, mlog = {}, []            # name -> {addr: last refresh}
    for step in history:
        if step[0] == "reg":
            p.cmd_register(step[1][0], step[2], step[1][1])
            for n in step[2]:
                n = n.upper()
                if step[1] not in model.setdefault(n, {}):
                    mlog.append(("added", n, step[1]))
                model[n][step[1]] = clock[0]
        elif step[0] == "unreg":
            p.cmd_unregister(step[1][0], step[1][1])
            for n in sorted(model):
                if step[1] in model[n]:
                    del model[n][step[1]]; mlog.append(("removed", n, step[1]))
            for n in [n for n in model if not model[n]]:
                del model[n]
        elif step[0] == "tick":
            clock[0] += step[1]
        else:
            n = step[1].upper()
            got = p.cmd_query("9.9.9.9", step[1])
            stale = [a for a, t in model.get(n, {}).items() if t < clock[0] - 100.0]
            for a in sorted(stale, key=lambda a: model[n][a]):
                del model[n][a]; mlog.append(("removed", n, a))
            if n in model and not model[n]:
                del model[n]
            live = model.get(n, {})
            if set(got) != set(live) or len(got) != len(live) or any(live[a] > live[b] for a, b in zip(got, got[1:])):
                return "query %r answered %r; live registrations with refresh times: %r" % (step[1], got, live)
        # (a name left without servers is no registration: whether its empty entry is kept is not observable)
        if {n: d for n, d in p.services.items() if d} != model:
            return "after %r the table is %r, the statement's table is %r" % (step, p.services, model)
        if sorted(p.log) != sorted(mlog) or len(p.log) != len(mlog):
            return "after %r the notifications are %r, expected %r" % (step, p.log, mlog)
    return None
try:
    for n in range(1, 7):
        for history in itertools.product(range(len(STEPS)), repeat=n):
            cases += 1
            why = run([STEPS[i] for i in history])
            if why and len(out) < 5:
                out.append({"id": "bounded:registry-history:" + "-".join(map(str, history)), "ok": False,
                            "detail": "history %r: %s" % ([STEPS[i] for i in history], why)})
finally:
    registry.time.time = real_time
out.append({"id": "bounded:registry-history:all-cases", "ok": not out, "detail": "%d histories" % cases, "cases": cases})
print(json.dumps(out))
"""


def registry_history_bounded(repo):
    p = subprocess.run(["/venv/bin/python", "-c", _HISTORY, repo], capture_output=True, text=True, timeout=900)
    if p.returncode != 0:
        return [{"id": "bounded:registry-history", "ok": False, "detail": "bounded run crashed: " + (p.stderr or "")[-500:]}]
    return json.loads(p.stdout.strip().splitlines()[-1])


BOUNDS["registry_history_bounded"] = ("rpyc/utils/registry.py::RegistryServer (_add_service, _remove_service, cmd_register, cmd_unregister, cmd_query)", HISTORY_BOUND)


# ---------------------------------------------------------------------------------------------------------------
# BOUNDED stand-in (never counted as proved) for lib.get_methods - dict.update over class __dict__ proxies along the MRO, hasattr
# and inspect.getdoc are outside the verifier's subset.  Which special methods a generated proxy class HAS decides whether
# `len(p)`, `x in p`, `reversed(p)`, `p()` ... reach the target at all (C02): the list must name exactly the attributes whose
# definition AS PYTHON RESOLVES IT (most derived class first; for a class object its own MRO before its metaclass's) is callable.
# ---------------------------------------------------------------------------------------------------------------
GET_METHODS_BOUND = ("class hierarchies of depth <= 3 (single chain and diamond), 3 attribute names (two special, one plain), each "
                     "defined at each level as: absent / a function / None / a non-callable; instances and class objects "
                     "(with a metaclass defining one of the names)")
_GETMETHODS = r"""
import sys, json, itertools, inspect
sys.path.insert(0, sys.argv[1])
from rpyc.lib import get_methods
LOCAL = frozenset(["__class__", "__dict__", "__weakref__", "__doc__", "__module__"])
def fn(tag):
    def f(self, *a):
        return tag
    f.__doc__ = "doc of " + tag
    return f
KINDS = ("absent", "function", "none", "number")
NAMES = ("__len__", "__contains__", "plain")
def body(level, choice):
    d = {}
    for name, kind in zip(NAMES, choice):
        if kind == "function": d[name] = fn("%s@%s" % (name, level))
        elif kind == "none": d[name] = None
        elif kind == "number": d[name] = 7
    return d
out, cases = [], 0
def check(obj, label):
    got = dict(get_methods(LOCAL, obj))
    if isinstance(obj, type):
        order = list(obj.__mro__) + list(type(obj).__mro__)
    else:
        order = list(type(obj).__mro__)
    seen = {}
    for cls in order:
        for name, val in vars(cls).items():
            seen.setdefault(name, val)           # the first definition in resolution order is the one Python uses
    want = {n: inspect.getdoc(v) for n, v in seen.items() if n not in LOCAL and hasattr(v, "__call__")}
    if got != want:
        diff = sorted(set(got) ^ set(want)) or sorted(n for n in got if got[n] != want[n])
        return "%s: get_methods and Python's own resolution differ on %r (listed: %r, resolved callable: %r)" % (
            label, diff[:4], sorted(n for n in diff if n in got), sorted(n for n in diff if n in want))
    return None
choices = list(itertools.product(KINDS, repeat=len(NAMES)))
sample = [c for i, c in enumerate(choices) if i % 3 == 0]
for ca in choices:
    for cb in sample:
        for shape in ("chain", "diamond"):
            cases += 1
            A = type("A", (object,), body("A", ca))
            B = type("B", (A,), body("B", cb))
            if shape == "chain":
                C = type("C", (B,), {})
            else:
                B2 = type("B2", (A,), body("B2", ca[::-1]))
                C = type("C", (B, B2), {})
            why = check(C(), "instance of %s %r/%r" % (shape, ca, cb))
            if why is None:
                M = type("M", (type,), {"__len__": fn("meta-len"), "plain": None})
                K = M("K", (B,), body("K", cb[::-1]))
                why = check(K, "class object %r/%r" % (ca, cb))
            if why and len(out) < 5:
                out.append({"id": "bounded:get_methods:%s:%s:%s" % (shape, "".join(k[0] for k in ca), "".join(k[0] for k in cb)),
                            "ok": False, "detail": why})
out.append({"id": "bounded:get_methods:all-cases", "ok": not out, "detail": "%d hierarchies" % cases, "cases": cases})
print(json.dumps(out))
"""


def get_methods_bounded(repo):
    p = subprocess.run(["/venv/bin/python", "-c", _GETMETHODS, repo], capture_output=True, text=True, timeout=600)
    if p.returncode != 0:
        return [{"id": "bounded:get_methods", "ok": False, "detail": "bounded run crashed: " + (p.stderr or "")[-500:]}]
    return json.loads(p.stdout.strip().splitlines()[-1])


BOUNDS["get_methods_bounded"] = ("rpyc/lib/__init__.py::get_methods", GET_METHODS_BOUND)
