"""pyvc engine: path-splitting symbolic execution of the real function ASTs against sidecar
contracts, producing verification conditions.

Semantics summary (see DESIGN.md section 2.3):
* every branch on a symbolic condition forks the path; a path ends in Return / Raise;
* loops are cut by their invariants (init / keep obligations, havoc of the modified state);
* a call to a repository function uses ONLY the callee's contract (pre obligation, fork over
  its normal and exceptional exits); externals use library models (trusted);
* each obligation is (hypotheses, goal); it holds iff  hyps /\ not goal  is unsatisfiable.
"""
import ast
import inspect
import os
import sys
import types
import z3

from .sorts import (SReal, Real, HeapRef, Sym, SInt, SBool, SBytes, SStr, SVal, SVL, SF64, Val, VL, Bytes, Int, Bool, F64, SORTS,
                    WRAP, seq_lit, fresh, typeof, typeof_axiom, type_id, TYPE_ID, wrap_sort)
from . import ops
from .ops import Unsupported, truth, b2v, i2v, zint, zbool, zseq, to_val, to_vl, Choice, TRUE, FALSE, is_sym


# ---------------------------------------------------------------------------------------------
# run-time structures
# ---------------------------------------------------------------------------------------------
import re
INTERNAL_TRACE = re.compile(r"\b(n_callees|callee_arg|callee_result|n_events|n_ev|all_calls_from_callee|all_getattr_on|"
                            r"n_requests|request_kind|request_conn|request_args|request_result|n_ops|op_name|op_target|op_args|op_result|n_local|ev_val|ev_obj|ev_raised|ev_arg|shutdown_attempted_on|call_returned|called_and_returned|called_and_returned_attr|raised_by_attr|n_attr_reads)\b")


class CheckerError(Exception):
    """stale contract, unresolved call, ... (exit code 3)"""


class SArr(Sym):
    """contents of a dict object: a z3 array Val -> Val (map) or Val -> Bool (has)"""
    kind = "array"


class Raised(object):
    """exceptional outcome of an expression / statement"""

    def __init__(self, cls, value=None, info=None):
        self.cls = cls
        self.value = value
        self.info = info or {}

    def __repr__(self):
        return "Raised(%s)" % getattr(self.cls, "__name__", self.cls)


class Ret(object):
    def __init__(self, value):
        self.value = value


class Brk(object):
    pass


class Cont(object):
    pass


class AnyException(Exception):
    """representative of `some Exception subclass not named in the function under analysis`"""


class AnyBaseException(BaseException):
    """representative of `some BaseException that is not an Exception` (other than the named ones)"""


_oid_counter = [0]


class Obj(HeapRef):
    """a heap object with concrete identity (parameters, allocations, model objects)"""

    REGISTRY = {}

    def __init__(self, cls, name, kind="obj", allocated=False):
        _oid_counter[0] += 1
        self.oid = _oid_counter[0]
        self.allocated = allocated      # created by the code under analysis (fresh), not part of the entry state
        Obj.REGISTRY[self.oid] = self
        self.cls = cls          # real Python class, or a model-class name (str)
        self.name = name
        self.kind = kind        # obj | joinlist | list | dict | exc

    def oid_term(self):
        return z3.IntVal(self.oid)

    def clsname(self):
        return self.cls if isinstance(self.cls, str) else getattr(self.cls, "__name__", str(self.cls))

    def __repr__(self):
        return "<%s %s#%d>" % (self.clsname(), self.name, self.oid)


class EntryRef(HeapRef):
    """alias of the mutable list stored under `key` in dict object `d` (slot lists of RefCountingColl):
    reads and in-place writes go to the table entry itself"""

    def __init__(self, d, key):
        self.d = d
        self.key = key

    def oid_term(self):
        raise Unsupported("identity of a table slot")

    def as_val(self):
        raise Unsupported("a table slot used as a value outside its table")

    def __repr__(self):
        return "EntryRef(%s[%s])" % (self.d.name, self.key)


class ExcObj(Obj):
    """an exception instance"""

    def __init__(self, cls, args=(), info=None):
        Obj.__init__(self, cls, "exc", "exc")
        self.args = args
        self.info = info or {}


class BoundMethod(object):
    def __init__(self, recv, func, name=None):
        self.recv = recv
        self.func = func
        self.name = name or getattr(func, "__name__", "?")

    def __repr__(self):
        return "BoundMethod(%r.%s)" % (self.recv, self.name)


class Closure(object):
    """a nested def / lambda with its captured environment"""

    def __init__(self, node, env, qualname):
        self.node = node
        self.env = env
        self.qualname = qualname


class TableRef(object):
    """the value of `table[key]` for a dispatch table whose CALL the contract abstracts by a library model
    (abstract_calls={"table[key]": model}): looked up now, called later - calling it is the same abstracted call"""

    def __init__(self, model, key):
        self.model = model
        self.key = key


class LocalClass(object):
    """a class statement inside the function under analysis whose body only defines methods (nested defs) and aliases of
    them: the class is its table of closures"""

    def __init__(self, name, members):
        self.name = name
        self.members = members        # attribute name -> Closure


class LocalInstance(object):
    """an instance of a LocalClass created by calling it without arguments (no __init__ / __new__ in the class body)"""

    def __init__(self, cls):
        self.cls = cls


class State(object):
    __slots__ = ("env", "heap", "pc", "trace", "labels", "exc_stack", "ghost")

    def __init__(self):
        self.env = {}
        self.heap = {}
        self.pc = []
        self.trace = []
        self.labels = []
        self.exc_stack = []
        self.ghost = {}

    def fork(self):
        s = State()
        s.env = dict(self.env)
        s.heap = dict(self.heap)
        s.pc = list(self.pc)
        s.trace = list(self.trace)
        s.labels = list(self.labels)
        s.exc_stack = list(self.exc_stack)
        s.ghost = dict(self.ghost)
        return s

    def assume(self, z):
        if isinstance(z, bool):
            z = z3.BoolVal(z)
        self.pc.append(z)
        return self

    def label(self, l):
        self.labels.append(l)
        return self


class Obligation(object):
    def __init__(self, oid, hyps, goal, props=(), kind="post", note="", meta=None):
        self.id = oid
        self.hyps = list(hyps)
        self.goal = goal
        self.props = list(props)
        self.kind = kind
        self.note = note
        self.meta = meta or {}


def _simp_false(z):
    if isinstance(z, bool):
        return not z
    return z3.is_false(z3.simplify(z))


def _simp_true(z):
    if isinstance(z, bool):
        return z
    return z3.is_true(z3.simplify(z))


# ---------------------------------------------------------------------------------------------
# the executor
# ---------------------------------------------------------------------------------------------
class Executor(object):
    def __init__(self, store, repo_root, spec_env, lib):
        self.store = store
        self.repo_root = os.path.realpath(repo_root)
        self.spec = spec_env          # SpecEnv: spec functions + symbolic primitives
        self.lib = lib                # library models
        self.obligations = []
        self.cur = None               # (contract, behaviour, funcobj, module)
        self.field_init = {}          # (oid, field) -> initial symbolic value (shared by all paths)
        self.unsupported = []
        self.paths = []
        self.max_paths = 12000
        self.created_ids = set()      # ids of Python containers created BY the code under analysis (literals, copies)
        self.unroll_depth = None      # triage mode: loops with plain invariants are unrolled this many times instead of cut
        self.unroll_cut = 0           # paths dropped in triage mode because they need more iterations than that
        self._keepalive = []
        self.used_externals = set()
        self.used_callee_clauses = set()
        self.inlined = set()
        self.used_lemmas = set()
        self.assumed_clauses = set()
        self.canaries = []

    # -- source location ----------------------------------------------------------------------
    def locate(self, relfile, qualname):
        """(funcobj, ast node, module) for a repository function; cross-checks reflection vs AST"""
        path = os.path.join(self.repo_root, relfile)
        modname = relfile[:-3].replace("/", ".")
        if relfile.startswith("@verif/"):
            # a ghost client (scenario): code of /verif that only CALLS repository functions; it is verified against
            # their contracts like any caller (the property-level lemma is its postcondition)
            path = os.path.join(os.path.dirname(os.path.dirname(os.path.abspath(__file__))), relfile[7:])
            modname = relfile[7:-3].replace("/", ".")
        if modname.endswith(".__init__"):
            modname = modname[:-9]
        mod = sys.modules.get(modname) or __import__(modname, fromlist=["*"])
        if os.path.realpath(mod.__file__) != os.path.realpath(path):
            raise CheckerError("module %s loaded from %s, expected %s" % (modname, mod.__file__, path))
        src = open(path).read()
        tree = ast.parse(src)
        parts = qualname.split(".")
        cands = [tree]
        encl = None
        for p in parts:
            if p == "<locals>":
                continue
            ordinal = None
            if "#" in p:                      # `method#1`: the second nested def of that name, in source order
                p, ordinal = p.split("#")[0], int(p.split("#")[1])
            nxt = []
            for c in cands:
                for ch in ast.walk(c):
                    if isinstance(ch, (ast.FunctionDef, ast.ClassDef)) and ch.name == p and ch is not c:
                        nxt.append(ch)
            if not nxt:
                raise CheckerError("cannot find %s in %s" % (qualname, relfile))
            nxt.sort(key=lambda n: n.lineno)
            if ordinal is not None:
                if ordinal >= len(nxt):
                    raise CheckerError("cannot find %s in %s (only %d definitions)" % (qualname, relfile, len(nxt)))
                nxt = [nxt[ordinal]]
            encl = cands[0]
            cands = nxt
        node = cands[0]
        self.enclosing_node = encl
        obj = mod
        funcobj = None
        if "<locals>" not in parts:
            for p in parts:
                obj = inspect.getattr_static(obj, p) if isinstance(obj, type) else getattr(obj, p)
            f = obj
            if isinstance(f, (classmethod, staticmethod)):
                f = f.__func__
            if isinstance(f, property):
                f = f.fget
            if isinstance(f, types.MethodType):
                f = f.__func__
            if type(f).__name__ == "hybridmethod" and hasattr(f, "func"):
                f = f.func           # rpyc.lib.hybridmethod: a descriptor around the plain function (receiver: instance or class)
            f = getattr(f, "__wrapped__", f)
            funcobj = f
            if not hasattr(f, "__code__"):
                raise CheckerError("%s is not a Python function" % qualname)
            def first_line(n):
                return n.decorator_list[0].lineno if n.decorator_list else n.lineno
            for cnd in cands:
                if f.__code__.co_firstlineno in (first_line(cnd), cnd.lineno):
                    node = cnd
            first = first_line(node)
            if f.__code__.co_firstlineno not in (first, node.lineno) or \
                    os.path.realpath(f.__code__.co_filename) != os.path.realpath(path):
                raise CheckerError("reflection/AST mismatch for %s: %s:%d vs AST line %d" % (
                    qualname, f.__code__.co_filename, f.__code__.co_firstlineno, node.lineno))
        return funcobj, node, mod, src

    def global_obj(self, modname, name, kind="dict"):
        """a mutable module-level container of the repository (e.g. a cache dict): ONE symbolic heap object per executor,
        shared by every function that names it (its contents are arbitrary unless a contract says otherwise)"""
        if not hasattr(self, "_global_objs"):
            self._global_objs = {}
        k = (modname, name)
        if k not in self._global_objs:
            self._global_objs[k] = Obj(dict if kind == "dict" else list, "%s.%s" % (modname, name), kind)
        return self._global_objs[k]

    def contract_module(self, contract):
        m = contract.file[:-3].replace("/", ".")
        return m[:-9] if m.endswith(".__init__") else m

    def dict_put(self, st, d, m=None, h=None):
        """write the contents arrays of a dict object; an inner dict of a dict-of-dicts writes through to the outer table"""
        al = getattr(d, "alias_of", None)
        for field, arr in (("map", m), ("has", h)):
            if arr is None:
                continue
            arr = arr.z if isinstance(arr, SArr) else arr
            if al is not None:
                outer, key = al
                st.heap[(outer.oid, field + "2")] = SArr(z3.Store(self.heap_get(st, outer, field + "2").z, key, arr))
            else:
                st.heap[(d.oid, field)] = SArr(arr)

    def inner_dict(self, outer, key):
        o = Obj(dict, "%s[...]" % outer.name, "dict")
        o.alias_of = (outer, key)
        return o

    def is_repo_function(self, f):
        return isinstance(f, types.FunctionType) and \
            os.path.realpath(f.__code__.co_filename).startswith(self.repo_root + os.sep)

    def relfile_of(self, f):
        return os.path.relpath(os.path.realpath(f.__code__.co_filename), self.repo_root)

    # -- obligations ----------------------------------------------------------------------------
    def oblige(self, st, name, goal, props=(), kind="post", note="", extra_hyps=()):
        if isinstance(goal, bool):
            goal = z3.BoolVal(goal)
        c, b = self.cur[0], self.cur[1]
        prefix = "%s" % c.qualname if b.name == "default" else "%s[%s]" % (c.qualname, b.name)
        oid = "%s/%s" % (prefix, name)
        self.obligations.append(Obligation(oid, list(st.pc) + list(extra_hyps), goal, props, kind, note,
                                           meta={"labels": list(st.labels), "function": c.target,
                                                 "behaviour": b.name, "group": getattr(self, "_cur_group", None)}))

    def netref_refcounts0(self):
        """____refcount__ of every proxy object at function entry (a heap array keyed by the proxy value)"""
        if not hasattr(self, "_refcounts0"):
            self._refcounts0 = SArr(z3.Const("$refcount0", z3.ArraySort(Val, Int)))
        return self._refcounts0

    def clock0(self):
        if not hasattr(self, "_clock0"):
            self._clock0 = SReal(z3.Const("$now0", Real))
        return self._clock0

    def clock_tick(self, st, tag):
        """time.time(): a value not earlier than anything read before; becomes the new ghost `now`"""
        prev = st.ghost["$now"] if "$now" in st.ghost else self.clock0()
        t = SReal(fresh("time@%s" % tag, Real))
        st.assume(t.z >= prev.z)
        st.ghost["$now"] = t
        return t

    def clock_advance(self, st, tag):
        """time passes inside a callee (the clock is only ever read through time.time())"""
        prev = st.ghost["$now"] if "$now" in st.ghost else self.clock0()
        t = SReal(fresh("now@%s" % tag, Real))
        st.assume(t.z >= prev.z)
        st.ghost["$now"] = t

    def canary(self, st, where, pc_before):
        """vacuity guard: assuming a contract / invariant / precondition must not make the path infeasible"""
        c, b = self.cur[0], self.cur[1]
        prefix = "%s" % c.qualname if b.name == "default" else "%s[%s]" % (c.qualname, b.name)
        self.canaries.append(Obligation("%s/canary:%s[%s]" % (prefix, where, self.path_label(st)), list(st.pc), FALSE,
                                        [], "canary", meta={"before": list(pc_before), "function": c.target,
                                                            "behaviour": b.name}))

    def apply_sets(self, st, pre, env, sets):
        for loc, expr in sets.items():
            tgt, fname = loc.rsplit(".", 1)
            o, _ = self.spec.evaluate(self, tgt, pre, pre, env)
            v, facts = self.spec.evaluate(self, expr, pre, pre, env)
            st.pc.extend(facts)
            st.heap[(o.oid, fname)] = v

    # -- values -------------------------------------------------------------------------------
    def fresh_of(self, sort, name):
        """fresh symbolic value of a declared sort name"""
        if sort in WRAP:
            return WRAP[sort](fresh(name, SORTS[sort]))
        if sort == "joinlist":
            o = Obj(list, name, "joinlist")
            return o
        if sort == "none":
            return None
        if sort == "dict":
            return Obj(dict, name, "dict")
        if sort == "vlist":
            return Obj(list, name, "vlist")
        if sort == "dict:slot":
            o = Obj(dict, name, "dict")
            o.valkind = "slot"
            return o
        if sort == "dict:dict":
            o = Obj(dict, name, "dict")
            o.valkind = "dict"
            return o
        if sort == "any":
            return SVal(fresh(name, Val))
        if sort.startswith("obj:"):
            clsname = sort[4:]
            cls = self.lib.model_classes.get(clsname) or self.resolve_class(clsname)
            return Obj(cls, name)
        if sort.startswith("const:"):
            return self.spec.eval_const(sort[6:])
        raise CheckerError("unknown sort %r" % sort)

    def resolve_class(self, clsname):
        for modname, mod in list(sys.modules.items()):
            if modname.startswith("rpyc") and mod is not None and hasattr(mod, clsname):
                c = getattr(mod, clsname)
                if isinstance(c, type):
                    return c
        return clsname

    def heap_get(self, st, obj, field):
        al = getattr(obj, "alias_of", None)
        if al is not None and field in ("map", "has"):
            # the inner dict stored in a dict-of-dicts under a key: a view of the outer table's 2-D arrays (no state of its own)
            outer, key = al
            return SArr(z3.Select(self.heap_get(st, outer, field + "2").z, key))
        k = (obj.oid, field)
        if k in st.heap:
            return st.heap[k]
        return self.init_field(obj, field)

    def init_field(self, obj, field):
        k = (obj.oid, field)
        if k in self.field_init:
            return self.field_init[k]
        if obj.kind == "joinlist":
            v = {"joined": SBytes(z3.Const("%s.joined#%d" % (obj.name, obj.oid), Bytes)),
                 "n": SInt(z3.Const("%s.n#%d" % (obj.name, obj.oid), Int))}[field]
            self.field_init[k] = v
            return v
        if obj.kind == "vlist" and field == "items":
            v = SVL(z3.Const("%s.items#%d" % (obj.name, obj.oid), VL))
            self.field_init[k] = v
            return v
        if obj.kind == "dict" and field in ("map2", "has2"):
            rng = z3.ArraySort(Val, Val) if field == "map2" else z3.ArraySort(Val, Bool)
            v = SArr(z3.Const("%s.%s#%d" % (obj.name, field, obj.oid), z3.ArraySort(Val, rng)))
            self.field_init[k] = v
            return v
        if obj.kind == "dict" and field in ("map", "has"):
            rng = Val if field == "map" else Bool
            v = SArr(z3.Const("%s.%s#%d" % (obj.name, field, obj.oid), z3.ArraySort(Val, rng)))
            self.field_init[k] = v
            return v
        decl = self.field_sort(obj, field)
        if decl is None:
            return None
        v = self.fresh_of(decl, "%s.%s" % (obj.name, field))
        if isinstance(v, Obj) and obj.allocated:
            v.allocated = True          # the representation of a newly created object is new as well
        self.field_init[k] = v
        return v

    def field_sort(self, obj, field):
        cls = obj.cls
        names = [cls] if isinstance(cls, str) else [c.__name__ for c in cls.__mro__]
        for n in names:
            if field in self.store.fields.get(n, {}):
                return self.store.fields[n][field]
        return None

    # =========================================================================================
    # verification of one function against one behaviour of its contract
    # =========================================================================================
    def verify(self, contract, bname):
        beh = contract.behaviours[bname]
        funcobj, node, mod, src = self.locate(contract.file, contract.qualname)
        self.cur = (contract, beh, funcobj, mod, node)
        self.loop_nodes = self.collect_loops(node)
        self.call_ordinals = {}
        self.spec.revealed = set(beh.reveal)
        self.spec.max_unfold = beh.unfold_depth
        st = State()
        # parameters
        argnames = [a.arg for a in node.args.args]
        if node.args.vararg:
            argnames.append(node.args.vararg.arg)
        if node.args.kwarg:
            argnames.append(node.args.kwarg.arg)
        argnames += [a.arg for a in node.args.kwonlyargs]
        for a in argnames:
            if a not in contract.params:
                raise CheckerError("contract of %s lacks parameter %s" % (contract.target, a))
            st.env[a] = self.fresh_of(beh.params.get(a, contract.params[a]), a)
        for p in contract.params:
            if p in contract.free:
                continue
            if p not in argnames:
                raise CheckerError("stale contract %s: parameter %s no longer exists" % (contract.target, p))
        for fv, srt in contract.free.items():
            if srt == "enclosing_literal":
                # a closure cell whose value the enclosing function assigns once, from a literal: read from the real AST
                found = [a for a in ast.walk(self.enclosing_node) if isinstance(a, ast.Assign) and len(a.targets) == 1 and
                         isinstance(a.targets[0], ast.Name) and a.targets[0].id == fv]
                if len(found) != 1:
                    raise CheckerError("stale contract %s: free variable %s is not assigned exactly once in the enclosing function" % (contract.target, fv))
                try:
                    st.env[fv] = ast.literal_eval(found[0].value)
                except ValueError:
                    raise CheckerError("stale contract %s: free variable %s is no longer a literal" % (contract.target, fv))
            elif srt.startswith("global:"):
                st.env[fv] = self.global_obj(self.contract_module(contract), fv, srt[7:])
            else:
                st.env[fv] = self.fresh_of(srt, fv)
        for g, s in beh.ghost.items():
            st.ghost[g] = self.fresh_of(s, g)
        self.type_invariants(st, st.env.values())
        self.type_invariants(st, st.ghost.values())
        for loc, expr in beh.init.items():
            tgt, fname = loc.rsplit(".", 1)
            o, _ = self.spec.evaluate(self, tgt, st, st, self.spec_scope(st))
            v, _ = self.spec.evaluate(self, expr, st, st, self.spec_scope(st))
            st.heap[(o.oid, fname)] = v
        pre = st.fork()
        self.pre_state = pre
        self.pre_oid_mark = _oid_counter[0]
        self.oid_names = {}
        for r in beh.requires + beh.assumes:
            z, facts = self.spec_bool(st, pre, r, self.spec_scope(st))
            st.pc.extend(facts)
            st.assume(z)
        self.use_hints(st, beh.hints)
        self.canary(st, "entry", [])
        # case splits
        splits = [None]
        if beh.split:
            conds = []
            for sx in beh.split:
                z, facts = self.spec_bool(st, pre, sx, self.spec_scope(st))
                conds.append((sx, z, facts))
            self.oblige(st, "split-exhaustive", z3.Or([z for _, z, _ in conds]), kind="split")
            splits = conds
        npaths = 0
        nreturns = 0
        for sp in splits:
            st0 = st.fork()
            if sp is not None:
                st0.pc.extend(sp[2])
                st0.assume(sp[1])
                st0.label("case[%s]" % sp[0])
            for st1, out in self.exec_block(st0, node.body):
                npaths += 1
                if npaths > self.max_paths:
                    raise CheckerError("path explosion in %s" % contract.target)
                if not isinstance(out, Raised):
                    nreturns += 1
                self.finish_path(st1, out, pre, contract, beh)
        self.paths.append((contract.target, bname, npaths))
        if npaths == 0:
            raise CheckerError("no paths through %s" % contract.target)
        if nreturns == 0 and beh.ensures and not beh.noreturn and self.unroll_depth is None:
            # vacuity guard: postconditions that no path ever reaches prove nothing (a model external declared with the wrong
            # parameters, say, turns every call into a TypeError path)
            raise CheckerError("no path through %s[%s] returns normally: its postconditions would hold vacuously (declare the "
                               "behaviour `noreturn` if that is intended)" % (contract.target, bname))
        return npaths

    def type_invariants(self, st, values):
        for v in values:
            if isinstance(v, SBytes):
                pass  # byte range facts are added on demand by models that need them
            if isinstance(v, SVal):
                st.assume(self.spec.val_wf(v.z))
            if isinstance(v, Sym) and v.kind == "complex":
                st.assume(Val.is_VComplex(v.z))
            if isinstance(v, Sym) and v.kind == "slice":
                st.assume(Val.is_VSlice(v.z))

    def spec_scope(self, st, extra=None):
        env = dict(st.ghost)
        env.update(st.env)
        if extra:
            env.update(extra)
        return env

    def path_label(self, st):
        return ",".join(st.labels) if st.labels else "straight"

    def finish_path(self, st, out, pre, contract, beh):
        # the obligations of ONE path end share the final path condition: they may be discharged as one query
        self._group_counter = getattr(self, "_group_counter", 0) + 1
        self._cur_group = self._group_counter
        try:
            return self._finish_path(st, out, pre, contract, beh)
        finally:
            self._cur_group = None

    def _finish_path(self, st, out, pre, contract, beh):
        lab = self.path_label(st)
        if contract.effect_free:
            self.oblige(st, "effect-free@%s" % lab, z3.BoolVal(len(st.trace) == 0), props=self.all_props(beh),
                        kind="post", note="the contract declares this function free of ghost events (calls, accesses)")
        ncalls = len([e for e in st.trace if e[0] == "Call"])
        eff = beh.effects or {}
        nrm = eff.get("normal", 0)
        nrm = nrm if isinstance(nrm, tuple) else (nrm, nrm)
        lo, hi = eff.get("raise", (0, 0)) if isinstance(out, Raised) else nrm
        if beh.effects is not None or ncalls:
            self.oblige(st, "effects-shape@%s" % lab, z3.BoolVal(lo <= ncalls <= hi), props=self.all_props(beh), kind="post",
                        note="number of direct calls of unknown callables on this exit must be within the declared "
                             "effects (%d..%d), found %d" % (lo, hi, ncalls))
        if isinstance(out, Raised):
            cls = out.cls
            allowed = None
            for name, spec in beh.raises.items():
                ecls = self.spec.exc_class(name, self.cur[3])
                if isinstance(cls, type) and issubclass(cls, ecls):
                    allowed = (name, spec)
                    break
            if allowed is None:
                self.oblige(st, "exc:%s-unreachable@%s" % (getattr(cls, "__name__", cls), lab), FALSE,
                            props=self.all_props(beh), kind="exc",
                            note="no `raises` entry allows this exception: the path must be infeasible")
                return
            name, spec = allowed
            scope = self.spec_scope(st, dict({"exc": out.value}, raised_exc=out.value, **pre.env))
            if spec.get("variants"):
                # alternatives for this exit (e.g. transport still open / transport died): the one whose exact
                # field values (`sets`) hold on this path is the one checked
                chosen = None
                for var in spec["variants"]:
                    ok = True
                    if var.get("if_trace"):
                        tv, _ = self.spec.evaluate(self, var["if_trace"], st, pre, scope)
                        if tv is not True:
                            ok = False
                    for loc, expr in var.get("sets", {}).items():
                        tgt, fname = loc.rsplit(".", 1)
                        o, _ = self.spec.evaluate(self, tgt, pre, pre, scope)
                        want, _ = self.spec.evaluate(self, expr, pre, pre, scope)
                        have = self.heap_get(st, o, fname)
                        same = ops.identical(have, want) if (isinstance(have, HeapRef) or isinstance(want, HeapRef) or
                                                             not (is_sym(have) or is_sym(want))) else None
                        if not (same is True or (same is not None and not isinstance(same, bool) and z3.is_true(z3.simplify(same)))):
                            ok = False
                    if ok:
                        chosen = var
                        break
                spec = dict(spec, **(chosen or spec["variants"][0]))
            if spec.get("only_when"):
                z, facts = self.spec_bool(st, pre, spec["only_when"], scope)
                self.oblige(st, "exc:%s.only_when@%s" % (name, lab), z, props=spec.get("only_when_props", spec.get("props", ())),
                            kind="exc", extra_hyps=facts)
            for i, (cond, cprops) in enumerate(spec.get("only_when_also", [])):
                # a weaker form of the condition, for the properties that do not depend on the stronger one
                z, facts = self.spec_bool(st, pre, cond, scope)
                self.oblige(st, "exc:%s.only_when_also%d@%s" % (name, i, lab), z, props=cprops, kind="exc", extra_hyps=facts)
            for i, sx in enumerate(spec.get("state", [])):
                z, facts = self.spec_bool(st, pre, sx, scope)
                self.oblige(st, "exc:%s.state%d@%s" % (name, i, lab), z, props=spec.get("props", ()), kind="exc",
                            extra_hyps=facts)
            for loc, expr in spec.get("sets", {}).items():
                self.check_set(st, pre, scope, loc, expr, "exc:%s.sets:%s@%s" % (name, loc, lab), spec.get("props", ()))
            self.check_frame(st, pre, beh, lab, spec.get("modifies"))
            return
        value = out.value if isinstance(out, Ret) else None
        if beh.noreturn:
            self.oblige(st, "post:never-returns@%s" % lab, FALSE, props=self.all_props(beh), kind="post",
                        note="the contract says this function always raises")
        for i, cond in enumerate(beh.returns_when):
            z, facts = self.spec_bool(pre, pre, cond, self.spec_scope(pre))
            self.oblige(st, "post:returns-only-when.%d@%s" % (i, lab), z, props=self.all_props(beh), kind="post",
                        extra_hyps=facts, note="a normal return is possible only under this condition on the entry state")
        # in postconditions a parameter name denotes its value at entry (parameters are mutable locals)
        scope = self.spec_scope(st, dict(pre.env, result=value))
        if beh.exit_hints:
            self.use_hints(st, beh.exit_hints, dict(pre.env, result=value))
        for cname, (expr, props) in beh.ensures.items():
            if cname.startswith("assumed_"):
                self.assumed_clauses.add("%s.%s: %s" % (contract.qualname, cname, expr))
                continue            # a stated assumption about the function (not provable from its body), used by callers
            z, facts = self.spec_bool(st, pre, expr, scope)
            self.oblige(st, "post:%s@%s" % (cname, lab), z, props=props, kind="post", extra_hyps=facts)
        for loc, expr in beh.sets.items():
            self.check_set(st, pre, scope, loc, expr, "post:sets:%s@%s" % (loc, lab), self.all_props(beh))
        # `must raise` conditions: a normally returning path contradicts them
        for name, spec in beh.raises.items():
            if spec.get("when"):
                z, facts = self.spec_bool(pre, pre, spec["when"], self.spec_scope(pre))
                self.oblige(st, "must-raise:%s@%s" % (name, lab), z3.Not(z), props=spec.get("props", ()), kind="exc",
                            extra_hyps=facts)
        self.check_frame(st, pre, beh, lab, None)

    def check_set(self, st, pre, scope, loc, expr, oid, props):
        tgt, fname = loc.rsplit(".", 1)
        o, _ = self.spec.evaluate(self, tgt, pre, pre, scope)
        want, facts = self.spec.evaluate(self, expr, pre, pre, scope)
        have = self.heap_get(st, o, fname)
        if isinstance(have, HeapRef) or isinstance(want, HeapRef) or not (is_sym(have) or is_sym(want)):
            same = ops.identical(have, want)
        else:
            same = ops.eq(have, want)
        self.oblige(st, oid, same, props=props, kind="post", extra_hyps=facts,
                    note="field must hold exactly the stated value on this exit")

    def all_props(self, beh):
        ps = set()
        for _, (e, p) in beh.ensures.items():
            ps.update(p)
        for _, s in beh.raises.items():
            ps.update(s.get("props", ()))
        return sorted(ps)

    def check_frame(self, st, pre, beh, lab, modifies_override):
        modifies = beh.modifies if modifies_override is None else modifies_override
        if "**" in modifies:
            return              # a ghost client (scenario): its frame is of no interest, only its postcondition
        allowed = set()
        for m in modifies:
            allowed.update(self.resolve_location(pre, m))
        for k, v in st.heap.items():
            if k in allowed:
                continue
            if k == ("$netref", "refcount") and "$refcounts" in modifies:
                continue
            if k == ("$sys", "epoch") and "$sysmodules" in modifies:
                continue
            old = pre.heap.get(k, self.field_init.get(k, None))
            if old is v:
                continue
            if self.is_fresh_obj(k[0], pre):
                continue            # an object allocated by this very call: not part of the caller-visible frame
            try:
                same = ops.eq(v, old) if not (isinstance(v, Obj) or isinstance(old, Obj)) else ops.identical(v, old)
            except Unsupported:
                same = False
            self.oblige(st, "frame:%s.%s@%s" % (self.obj_name(k[0]), k[1], lab), same, props=self.all_props(beh),
                        kind="frame", note="location outside `modifies` must be unchanged")

    def is_fresh_obj(self, oid, pre):
        o = Obj.REGISTRY.get(oid)
        return o is not None and o.allocated

    def obj_name(self, oid):
        return self.oid_names.get(oid, "#%s" % (oid,))

    def resolve_location(self, st, m):
        if m in ("$refcounts", "$sysmodules"):
            return set()
        if m.startswith("global:"):
            _, modname, name = m.split(":")
            o = self.global_obj(modname, name)
            return {(o.oid, "map"), (o.oid, "has")}
        return self._resolve_location(st, m)

    def _resolve_location(self, st, m):
        """modifies entry -> set of heap keys.  Forms: 'x' (contents of the list/obj bound to x),
        'x.f' (field f of the object bound to x)"""
        parts = m.split(".")
        v = st.env.get(parts[0], st.ghost.get(parts[0]))
        for p in parts[1:-1]:
            if not isinstance(v, Obj):
                return set()
            v = self.heap_get(st, v, p)
        if len(parts) == 1:
            if isinstance(v, Obj) and v.kind == "joinlist":
                return {(v.oid, "joined"), (v.oid, "n")}
            if isinstance(v, Obj) and v.kind == "dict":
                return {(v.oid, "map"), (v.oid, "has"), (v.oid, "map2"), (v.oid, "has2")} if getattr(v, "valkind", None) == "dict" \
                    else {(v.oid, "map"), (v.oid, "has")}
            if isinstance(v, Obj) and v.kind == "vlist":
                return {(v.oid, "items")}
            if isinstance(v, Obj):
                return {(v.oid, f) for f in self.all_fields(v)}
            return set()
        if not isinstance(v, Obj):
            if v is None or is_sym(v):
                raise CheckerError("modifies entry %r does not denote an object" % m)
            return set()        # the path ends at a constant (e.g. a closed stream's ClosedFile): nothing to modify there
        if parts[-1] == "*":
            return {(v.oid, f) for f in self.all_fields(v)}
        tgt = self.heap_get(st, v, parts[-1])
        # a path to a container denotes the field AND the container's contents
        if isinstance(tgt, Obj) and tgt.kind == "dict":
            extra = {(tgt.oid, "map2"), (tgt.oid, "has2")} if getattr(tgt, "valkind", None) == "dict" else set()
            return {(v.oid, parts[-1]), (tgt.oid, "map"), (tgt.oid, "has")} | extra
        if isinstance(tgt, Obj) and tgt.kind == "joinlist":
            return {(v.oid, parts[-1]), (tgt.oid, "joined"), (tgt.oid, "n")}
        if isinstance(tgt, Obj) and tgt.kind == "vlist":
            return {(v.oid, parts[-1]), (tgt.oid, "items")}
        return {(v.oid, parts[-1])}

    def all_fields(self, obj):
        fs = set()
        cls = obj.cls
        names = [cls] if isinstance(cls, str) else [c.__name__ for c in cls.__mro__]
        for n in names:
            fs.update(self.store.fields.get(n, {}).keys())
        return fs

    # -- spec evaluation (delegated) ----------------------------------------------------------
    def spec_bool(self, st, pre, expr, scope):
        v, facts = self.spec.evaluate(self, expr, st, pre, scope)
        z = truth(v)
        if isinstance(z, bool):
            z = z3.BoolVal(z)
        return z, facts

    def spec_value(self, st, pre, expr, scope):
        return self.spec.evaluate(self, expr, st, pre, scope)

    # =========================================================================================
    # statements
    # =========================================================================================
    def collect_loops(self, fnode):
        loops = [n for n in ast.walk(fnode) if isinstance(n, (ast.For, ast.While, ast.GeneratorExp, ast.ListComp))]
        loops.sort(key=lambda n: (n.lineno, n.col_offset))
        return {id(n): i for i, n in enumerate(loops)}

    def rel_line(self, node):
        return node.lineno - self.cur[4].lineno

    def exec_block(self, st, stmts):
        """generator of (state, outcome) ; outcome None = fell through"""
        if not stmts:
            yield st, None
            return
        first, rest = stmts[0], stmts[1:]
        for st1, out in self.exec_stmt(st, first):
            if out is None:
                for r in self.exec_block(st1, rest):
                    yield r
            else:
                yield st1, out

    def exec_stmt(self, st, s):
        m = getattr(self, "st_" + type(s).__name__, None)
        if m is None:
            raise Unsupported("statement %s at line %d" % (type(s).__name__, s.lineno))
        return m(st, s)

    def st_Pass(self, st, s):
        yield st, None

    def st_Expr(self, st, s):
        if isinstance(s.value, ast.Constant):      # docstring
            yield st, None
            return
        for st1, v in self.ev(st, s.value):
            yield st1, (v if isinstance(v, Raised) else None)

    def st_Return(self, st, s):
        if s.value is None:
            yield st, Ret(None)
            return
        for st1, v in self.ev(st, s.value):
            yield st1, (v if isinstance(v, Raised) else Ret(v))

    def st_Break(self, st, s):
        yield st, Brk()

    def st_Continue(self, st, s):
        yield st, Cont()

    def st_Assign(self, st, s):
        for st1, v in self.ev(st, s.value):
            if isinstance(v, Raised):
                yield st1, v
                continue
            outs = [(st1, None)]
            for t in s.targets:
                nxt = []
                for st2, o in outs:
                    if o is not None:
                        nxt.append((st2, o))
                        continue
                    nxt.extend(self.assign(st2, t, v))
                outs = nxt
            for r in outs:
                yield r

    def st_AnnAssign(self, st, s):
        # `x: T = v` is `x = v` (annotations are not evaluated by the model); a bare `x: T` does nothing
        if s.value is None:
            yield st, None
            return
        for r in self.st_Assign(st, ast.Assign(targets=[s.target], value=s.value, lineno=s.lineno)):
            yield r

    def ex_NamedExpr(self, st, e):
        # (name := value): bind, then the value
        for st1, v in self.ev(st, e.value):
            if isinstance(v, Raised):
                yield st1, v
                continue
            for st2, o in self.assign(st1, e.target, v):
                yield st2, (o if o is not None else v)

    def ex_ListComp(self, st, e):
        # [f(x) for x in xs]: the same accumulating loop as list(f(x) for x in xs)
        for r in self.lib.comprehension(self, st, "list", e, e):
            yield r

    def assign(self, st, target, v):
        """returns list of (state, outcome)"""
        if isinstance(target, ast.Name):
            if self.cur[0].locals.get(target.id) == "vlist" and isinstance(v, Obj) and v.kind == "joinlist" and \
                    self.heap_get(st, v, "n") == 0:
                v = Obj(list, target.id, "vlist", allocated=True)       # `[]` bound to a local declared a list of values
                st.heap[(v.oid, "items")] = SVL(VL.nil)
            st.env[target.id] = v
            return [(st, None)]
        if isinstance(target, (ast.Tuple, ast.List)):
            return self.assign_unpack(st, target, v)
        if isinstance(target, ast.Attribute):
            res = []
            for st1, o in self.ev(st, target.value):
                if isinstance(o, Raised):
                    res.append((st1, o))
                    continue
                if isinstance(o, SVal) and target.attr == "____refcount__":
                    arr = st1.heap[("$netref", "refcount")] if ("$netref", "refcount") in st1.heap else self.netref_refcounts0()
                    st1.heap[("$netref", "refcount")] = SArr(z3.Store(arr.z, o.z, zint(v)))
                    res.append((st1, None))
                    continue
                if isinstance(o, SVal):
                    for s2, r in self.lib.dyn_attr_event(self, st1, "SetAttr", o, target.attr, target, value=to_val(v)):
                        res.append((s2, r if isinstance(r, Raised) else None))
                    continue
                if not isinstance(o, Obj):
                    raise Unsupported("attribute assignment on %r (line %d)" % (o, target.lineno))
                if self.field_sort(o, target.attr) == "vlist" and isinstance(v, Obj) and v.kind == "joinlist" and \
                        self.heap_get(st1, v, "n") == 0:
                    v = Obj(list, "%s.%s" % (o.name, target.attr), "vlist", allocated=True)   # `[]` stored in a list-of-values field
                    st1.heap[(v.oid, "items")] = SVL(VL.nil)
                if self.field_sort(o, target.attr) in ("dict", "dict:slot") and isinstance(v, dict):
                    v = self.lib.lift_dict(self, st1, v, "%s.%s" % (o.name, target.attr))
                st1.heap[(o.oid, target.attr)] = v
                res.append((st1, None))
            return res
        if isinstance(target, ast.Subscript):
            res = []
            for st1, o in self.ev(st, target.value):
                if isinstance(o, Raised):
                    res.append((st1, o))
                    continue
                for st2, k in self.ev(st1, target.slice):
                    if isinstance(k, Raised):
                        res.append((st2, k))
                        continue
                    res.extend(self.lib.setitem(self, st2, o, k, v, target))
            return res
        raise Unsupported("assignment target %s" % type(target).__name__)

    def assign_unpack(self, st, target, v):
        n = len(target.elts)
        if isinstance(v, tuple) or isinstance(v, list):
            if len(v) != n:
                return [(st, Raised(ValueError))]
            outs = [(st, None)]
            for t, x in zip(target.elts, v):
                nxt = []
                for st2, o in outs:
                    nxt.extend(self.assign(st2, t, x) if o is None else [(st2, o)])
                outs = nxt
            return outs
        if isinstance(v, SVal):
            # unpacking a dynamic (plain) value: a tuple of exactly n items; or another plain iterable of exactly n items -
            # bytes (into ints), text (into 1-character texts), a frozenset (its items in its iteration order);
            # anything else: TypeError / ValueError.  ONE path for all the shapes that unpack (the items are defined by cases).
            res = []
            z = v.z
            items = Val.titems(z)
            elems = [fresh("unpacked", Val) for i in range(n)]
            spine = VL.nil
            for x in reversed(elems):
                spine = VL.cons(x, spine)

            def exactly(c):
                sh = []
                for i in range(n):
                    sh.append(VL.is_cons(c))
                    c = VL.tl(c)
                sh.append(c == VL.nil)
                return z3.And(sh)
            by, tx = Val.vby(z), Val.vs(z)
            order = self.spec.uf["order_of"](Val.fitems(z))
            is_t = z3.And(Val.is_VTuple(z), exactly(items))
            is_b = z3.And(Val.is_VBytes(z), z3.Length(by) == n)
            is_s = z3.And(Val.is_VStr(z), z3.Length(tx) == n)
            is_f = z3.And(Val.is_VFset(z), exactly(order))
            ok = z3.Or(is_t, is_b, is_s, is_f)
            good = st.fork().assume(ok).label("L%d:unpack%d" % (self.rel_line(target), n))
            good.assume(z3.Implies(is_t, items == spine))
            good.assume(z3.Implies(is_f, order == spine))
            for i in range(n):
                good.assume(z3.Implies(is_b, z3.And(elems[i] == Val.VInt(by[i]), by[i] >= 0, by[i] < 256)))
                good.assume(z3.Implies(is_s, elems[i] == Val.VStr(z3.Unit(tx[i]))))
            for fact in self.spec.perm_facts(self, good, SVL(order), SVL(Val.fitems(z))):
                good.assume(z3.Implies(is_f, fact))
            # element-wise predicates of the item list, unfolded along the now explicit spine
            for fact in self.spec.spine_facts(self, good, SVL(spine)):
                good.assume(fact)
            outs = [(good, None)]
            for t, x in zip(target.elts, elems):
                nxt = []
                for st2, o in outs:
                    nxt.extend(self.assign(st2, t, SVal(x)) if o is None else [(st2, o)])
                outs = nxt
            res.extend(outs)
            if self.cur[0].dynamic_errors:
                # a heap object (the result of unknown code): iterating it runs its own code - one ghost Op event; it yields n
                # arbitrary items, or the unpacking fails
                ref = st.fork().assume(Val.is_VRef(z)).label("L%d:unpack%d of an object" % (self.rel_line(target), n))
                if self.feasible(ref) and self.solver_feasible(ref):
                    relems = [SVal(fresh("unpacked", Val)) for _ in range(n)]
                    self.type_invariants(ref, relems)
                    ref.trace.append(("Op", "unpack", z, VL.nil, Val.VTuple(to_vl(relems))))
                    o2 = [(ref, None)]
                    for t, x in zip(target.elts, relems):
                        nxt = []
                        for st2, o in o2:
                            nxt.extend(self.assign(st2, t, x) if o is None else [(st2, o)])
                        o2 = nxt
                    res.extend(o2)
                    for cls in (TypeError, ValueError, AnyException, AnyBaseException):
                        b = st.fork().assume(Val.is_VRef(z)).label("L%d:unpack raises %s" % (self.rel_line(target), cls.__name__))
                        b.trace.append(("Op", "unpack", z, VL.nil, "raise"))
                        res.append((b, Raised(cls, ExcObj(cls, info={"dynamic": True}))))
                bad = st.fork().assume(z3.And(z3.Not(ok), z3.Not(Val.is_VRef(z)))).label("L%d:unpack-fails" % self.rel_line(target))
                res.extend(self.lib.unpack_failure(self, bad, v, n))
                return res
            bad = st.fork().assume(z3.Not(ok)).label("L%d:unpack-fails" % self.rel_line(target))
            res.extend(self.lib.unpack_failure(self, bad, v, n))
            return res
        raise Unsupported("unpacking %r" % (v,))

    def st_AugAssign(self, st, s):
        load = ast.copy_location(ast.BinOp(left=self.as_load(s.target), op=s.op, right=s.value), s)
        fake = ast.copy_location(ast.Assign(targets=[s.target], value=load), s)
        ast.fix_missing_locations(fake)
        return self.st_Assign(st, fake)

    def as_load(self, t):
        import copy
        t2 = copy.deepcopy(t)
        for n in ast.walk(t2):
            if hasattr(n, "ctx"):
                n.ctx = ast.Load()
        return t2

    def st_If(self, st, s):
        for st1, c in self.ev_truth(st, s.test):
            if isinstance(c, Raised):
                yield st1, c
                continue
            for st2, taken in self.branch(st1, c, s):
                for r in self.exec_block(st2, s.body if taken else s.orelse):
                    yield r

    def branch(self, st, c, node):
        """fork on a truth value; yields (state, bool)"""
        if isinstance(c, bool):
            yield st, c
            return
        if _simp_true(c):
            yield st, True
            return
        if _simp_false(c):
            yield st, False
            return
        ln = self.rel_line(node)
        t = st.fork().assume(c).label("L%d:T" % ln)
        f = st.fork().assume(z3.Not(c)).label("L%d:F" % ln)
        if self.feasible(t):
            yield t, True
        if self.feasible(f):
            yield f, False

    def feasible(self, st):
        if not self.spec.quick_feasible(st.pc):
            return False
        if self.cur is not None and self.cur[0].solver_pruning:
            # the contract asks for branch pruning by the solver (paths the precondition excludes contain constructs
            # outside the subset): a path is dropped only on `unsat`
            s = z3.Solver()
            s.set("timeout", int(os.environ.get("PYVC_PRUNE_MS", "150")))
            for h in st.pc:
                s.add(h)
            if s.check() == z3.unsat:
                self.pruned = getattr(self, "pruned", 0) + 1
                return False
        return True

    def solver_feasible(self, st, ms=300):
        """a path is dropped only when the solver proves its condition unsatisfiable (used where an alternative is rarely
        possible - a heap object where plain values are expected - and exploring it would multiply the paths)"""
        s = z3.Solver()
        s.set("timeout", ms)
        for h in st.pc:
            s.add(h)
        return s.check() != z3.unsat

    def truth_of(self, st, v):
        if isinstance(v, Obj) and v.kind == "vlist":
            return z3.simplify(self.heap_get(st, v, "items").z != VL.nil)
        if isinstance(v, Obj) and v.kind == "joinlist":
            return z3.simplify(zint(self.heap_get(st, v, "n")) > 0)
        if isinstance(v, Obj) and v.kind == "dict":
            return z3.simplify(self.heap_get(st, v, "has").z != z3.K(Val, z3.BoolVal(False)))
        return truth(v)

    def ev_truth(self, st, e):
        for st1, v in self.ev(st, e):
            if isinstance(v, Raised):
                yield st1, v
            else:
                yield st1, self.truth_of(st1, v)

    def st_Raise(self, st, s):
        if s.exc is None:
            if not st.exc_stack:
                raise Unsupported("bare raise outside handler")
            yield st, st.exc_stack[-1]
            return
        for st1, v in self.ev(st, s.exc):
            if isinstance(v, Raised):
                yield st1, v
            elif isinstance(v, ExcObj):
                yield st1, Raised(v.cls, v, v.info)
            elif isinstance(v, type) and issubclass(v, BaseException):
                yield st1, Raised(v, ExcObj(v))
            else:
                for r in self.lib.raise_dynamic(self, st1, v, s):
                    yield r

    def st_Assert(self, st, s):
        for st1, c in self.ev_truth(st, s.test):
            if isinstance(c, Raised):
                yield st1, c
                continue
            for st2, taken in self.branch(st1, c, s):
                yield st2, (None if taken else Raised(AssertionError, ExcObj(AssertionError)))

    def st_Import(self, st, s):
        for a in s.names:
            mod = __import__(a.name)
            st.env[a.asname or a.name.split(".")[0]] = mod
        yield st, None

    def st_ImportFrom(self, st, s):
        mod = __import__(s.module, fromlist=[a.name for a in s.names])
        for a in s.names:
            st.env[a.asname or a.name] = getattr(mod, a.name)
        yield st, None

    def st_FunctionDef(self, st, s):
        qn = "%s.<locals>.%s" % (self.cur[0].qualname, s.name)
        st.env[s.name] = Closure(s, st.env, qn)
        yield st, None

    def st_ClassDef(self, st, s):
        # a local class: only `class X(object):` with a body of method definitions, aliases `a = b` of them, a docstring, pass
        if s.decorator_list or s.keywords or [ast.unparse(b) for b in s.bases] not in ([], ["object"]):
            raise Unsupported("local class with bases / decorators (line %d)" % s.lineno)
        members = {}
        for b in s.body:
            if isinstance(b, ast.FunctionDef) and not b.decorator_list:
                members[b.name] = Closure(b, st.env, "%s.<locals>.%s.%s" % (self.cur[0].qualname, s.name, b.name))
            elif isinstance(b, ast.Assign) and len(b.targets) == 1 and isinstance(b.targets[0], ast.Name) and \
                    isinstance(b.value, ast.Name) and b.value.id in members:
                members[b.targets[0].id] = members[b.value.id]
            elif isinstance(b, ast.Pass) or (isinstance(b, ast.Expr) and isinstance(b.value, ast.Constant)):
                pass
            else:
                raise Unsupported("statement in a local class body (line %d)" % b.lineno)
        st.env[s.name] = LocalClass(s.name, members)
        yield st, None

    def st_Delete(self, st, s):
        outs = [(st, None)]
        for t in s.targets:
            nxt = []
            for st1, o in outs:
                if o is not None:
                    nxt.append((st1, o))
                    continue
                nxt.extend(self.lib.delete(self, st1, t))
            outs = nxt
        for r in outs:
            yield r

    def st_With(self, st, s):
        if len(s.items) != 1:
            raise Unsupported("with: multiple items")
        item = s.items[0]
        for st1, cm in self.ev(st, item.context_expr):
            if isinstance(cm, Raised):
                yield st1, cm
                continue
            for r in self.lib.with_stmt(self, st1, cm, item.optional_vars, s):
                yield r

    # -- try ------------------------------------------------------------------------------------
    def st_Try(self, st, s):
        for st1, out in self.exec_block(st, s.body):
            if out is None and s.orelse:
                inner = self.exec_block(st1, s.orelse)
            elif isinstance(out, Raised):
                inner = self.handle(st1, out, s)
            else:
                inner = [(st1, out)]
            for st2, out2 in inner:
                if not s.finalbody:
                    yield st2, out2
                    continue
                for st3, out3 in self.exec_block(st2, s.finalbody):
                    yield st3, (out2 if out3 is None else out3)

    def handle(self, st, exc, s):
        for h in s.handlers:
            if h.type is None:
                match = True
            else:
                classes = self.handler_classes(st, h.type)
                match = self.exc_matches(exc, classes)
            if match:
                st.label("L%d:except" % self.rel_line(h))
                if h.name:
                    st.env[h.name] = exc.value if exc.value is not None else ExcObj(exc.cls)
                st.exc_stack.append(exc)
                for st2, out in self.exec_block(st, h.body):
                    if st2.exc_stack and st2.exc_stack[-1] is exc:
                        st2.exc_stack.pop()
                    yield st2, out
                return
        yield st, exc

    def handler_classes(self, st, tnode):
        vals = list(self.ev(st, tnode))
        if len(vals) != 1 or isinstance(vals[0][1], Raised):
            raise Unsupported("exception class expression")
        v = vals[0][1]
        return tuple(v) if isinstance(v, tuple) else (v,)

    def exc_matches(self, exc, classes):
        if not isinstance(exc.cls, type):
            raise Unsupported("matching symbolic exception class")
        return any(isinstance(c, type) and issubclass(exc.cls, c) for c in classes)

    # -- loops --------------------------------------------------------------------------------
    def loop_contract(self, node):
        k = self.loop_nodes[id(node)]
        c, beh = self.cur[0], self.cur[1]
        loops = beh.loops if beh.loops is not None else c.loops
        if k not in loops:
            raise CheckerError("%s: loop %d (line %d) has no invariant in the contract" % (c.target, k, node.lineno))
        return k, loops[k]

    def assigned_names(self, stmts):
        names = set()
        for s in stmts:
            for n in ast.walk(s):
                if isinstance(n, ast.Name) and isinstance(n.ctx, (ast.Store, ast.Del)):
                    names.add(n.id)
                if isinstance(n, ast.Call) and isinstance(n.func, ast.Attribute) and \
                        isinstance(n.func.value, ast.Name) and n.func.attr in ("append", "pop", "clear", "extend",
                                                                                "update", "add", "discard", "remove"):
                    names.add(n.func.value.id)
        return names

    def havoc(self, st, names, lc, k):
        decl = dict(self.cur[0].locals)
        decl.update(lc.get("havoc", {}))
        for n in sorted(names):
            if n not in st.env and n not in decl:
                continue
            cur = st.env.get(n)
            sort = decl.get(n)
            if sort is None:
                if isinstance(cur, (SInt,)) or (type(cur) is int):
                    sort = "int"
                elif isinstance(cur, (SBool, bool)):
                    sort = "bool"
                elif isinstance(cur, (SBytes, bytes)):
                    sort = "bytes"
                elif isinstance(cur, (SStr, str)):
                    sort = "str"
                elif isinstance(cur, SVal):
                    sort = "val"
                elif isinstance(cur, SVL):
                    sort = "vl"
                elif isinstance(cur, Obj) and cur.kind == "joinlist":
                    sort = "joinlist-contents"
                elif cur is None and n not in st.env:
                    continue
                else:
                    raise CheckerError("%s: cannot havoc local %r (=%r) at loop %d; declare its sort" % (
                        self.cur[0].target, n, cur, k))
            if sort == "vlist" and isinstance(cur, Obj) and cur.kind == "vlist":
                # a list of values mutated in place (append): the same object, arbitrary contents
                st.heap[(cur.oid, "items")] = SVL(fresh("%s.items@loop%d" % (n, k), VL))
                continue
            if sort == "joinlist-contents":
                st.heap[(cur.oid, "joined")] = SBytes(fresh("%s.joined@loop%d" % (n, k), Bytes))
                st.heap[(cur.oid, "n")] = SInt(fresh("%s.n@loop%d" % (n, k), Int))
            elif sort == "joinlist":
                o = cur if isinstance(cur, Obj) and cur.kind == "joinlist" else Obj(list, n, "joinlist")
                st.env[n] = o
                st.heap[(o.oid, "joined")] = SBytes(fresh("%s.joined@loop%d" % (n, k), Bytes))
                st.heap[(o.oid, "n")] = SInt(fresh("%s.n@loop%d" % (n, k), Int))
            else:
                st.env[n] = self.fresh_of(sort, "%s@loop%d" % (n, k))
        if lc.get("modifies"):
            env = self.spec_scope(st)
            self.havoc_modifies(st, env, lc["modifies"], "loop%d" % k)

    def live_objs(self, st):
        seen = {}
        for v in list(st.env.values()) + list(st.ghost.values()) + list(st.heap.values()) + \
                list(self.field_init.values()):
            if isinstance(v, Obj):
                seen[v.oid] = v
        return seen.values()

    def check_invariants(self, st, lc, k, phase, extra_scope=None):
        for i, inv in enumerate(lc.get("invariant", [])):
            z, facts = self.spec_bool(st, self.pre_state, inv, self.spec_scope(st, extra_scope))
            self.oblige(st, "inv-%s:%d@loop%d[%s]" % (phase, i, k, self.path_label(st)), z,
                        props=lc.get("props", self.all_props(self.cur[1])), kind="inv", extra_hyps=facts)

    def assume_invariants(self, st, lc, extra_scope=None):
        before = list(st.pc)
        self._assume_invariants(st, lc, extra_scope)
        self.canary(st, "loop-head", before)

    def _assume_invariants(self, st, lc, extra_scope=None):
        for inv in lc.get("invariant", []):
            z, facts = self.spec_bool(st, self.pre_state, inv, self.spec_scope(st, extra_scope))
            st.pc.extend(facts)
            st.assume(z)
        self.use_hints(st, lc.get("hints", []), extra_scope)

    def use_hints(self, st, hints, extra_scope=None):
        """hints are evaluated for their unfoldings; an instance of a proved lemma is assumed"""
        for h in hints:
            v, facts = self.spec_value(st, self.pre_state, h, self.spec_scope(st, extra_scope))
            st.pc.extend(facts)
            if self.spec.is_lemma_use(h):
                st.assume(ops._z(truth(v)))
                self.used_lemmas.add(h.split("(")[0])

    def loop_ghost_init(self, st, lc):
        for g, (sort, init, step) in lc.get("ghost", {}).items():
            v, facts = self.spec_value(st, self.pre_state, init, self.spec_scope(st))
            st.pc.extend(facts)
            st.ghost[g] = self.coerce_spec(v, sort)

    def loop_ghost_havoc(self, st, lc, k):
        for g, (sort, init, step) in lc.get("ghost", {}).items():
            st.ghost[g] = self.fresh_of(sort, "%s@loop%d" % (g, k))

    def loop_ghost_step(self, st, lc):
        new = {}
        for g in lc.get("ghost", {}):
            st.ghost["old_" + g] = st.ghost.get(g)        # value before this iteration's update (for step hints)
        for g, (sort, init, step) in lc.get("ghost", {}).items():
            v, facts = self.spec_value(st, self.pre_state, step, self.spec_scope(st))
            st.pc.extend(facts)
            new[g] = self.coerce_spec(v, sort)
        st.ghost.update(new)
        self.use_hints(st, lc.get("step_hints", []))

    def coerce_spec(self, v, sort):
        return WRAP[sort](self.spec.to_sort(v, sort)) if sort in WRAP else v

    @staticmethod
    def plain_loop(lc):
        """a loop whose contract is only an invariant (no ghost accumulators, no per-iteration event description): the function's
        other clauses do not mention it, so it can also be executed by unrolling"""
        # (`unrollable`: the contract says its function's clauses are written over the raw trace, so they mean the same when the
        # loop is unrolled instead of summarised)
        return bool(lc.get("unrollable")) or not (lc.get("ghost") or lc.get("body_events") or lc.get("local_trace"))

    def while_unrolled(self, st, s, lc, depth):
        if depth > self.unroll_depth:
            self.unroll_cut += 1
            return
        if lc.get("clock"):
            self.clock_advance(st, "unrolled%d" % depth)
        for st1, c in self.ev_truth(st, s.test):
            if isinstance(c, Raised):
                yield st1, c
                continue
            for st2, taken in self.branch(st1, c, s):
                if not taken:
                    for r in self.exec_block(st2, s.orelse):
                        yield r
                    continue
                for st3, out in self.exec_block(st2, s.body):
                    if out is None or isinstance(out, Cont):
                        for r in self.while_unrolled(st3, s, lc, depth + 1):
                            yield r
                    elif isinstance(out, Brk):
                        yield st3, None
                    else:
                        yield st3, out

    def vl_unrolled(self, st, node, vl, target, body, orelse, depth):
        if depth > self.unroll_depth:
            self.unroll_cut += 1
            return
        ex = st.fork().assume(vl.z == VL.nil).label("L%d:exit" % self.rel_line(node))
        for r in self.exec_block(ex, orelse):
            yield r
        it = st.fork().assume(VL.is_cons(vl.z)).label("L%d:iter" % self.rel_line(node))
        for st1, o in self.assign(it, target, SVal(VL.hd(vl.z))):
            if o is not None:
                yield st1, o
                continue
            for st2, out in self.exec_block(st1, body):
                if out is None or isinstance(out, Cont):
                    for r in self.vl_unrolled(st2, node, SVL(VL.tl(vl.z)), target, body, orelse, depth + 1):
                        yield r
                elif isinstance(out, Brk):
                    yield st2, None
                else:
                    yield st2, out

    def range_unrolled(self, st, node, lo, hi, iname, body, orelse, depth):
        if depth > self.unroll_depth:
            self.unroll_cut += 1
            return
        ex = st.fork().assume(lo >= hi).label("L%d:exit" % self.rel_line(node))
        for r in self.exec_block(ex, orelse):
            yield r
        it = st.fork().assume(lo < hi).label("L%d:iter" % self.rel_line(node))
        it.env[iname] = i2v(lo)
        for st2, out in self.exec_block(it, body):
            if out is None or isinstance(out, Cont):
                for r in self.range_unrolled(st2, node, lo + 1, hi, iname, body, orelse, depth + 1):
                    yield r
            elif isinstance(out, Brk):
                yield st2, None
            else:
                yield st2, out

    def st_While(self, st, s):
        k, lc = self.loop_contract(s)
        if self.unroll_depth is not None and self.plain_loop(lc):
            for r in self.while_unrolled(st, s, lc, 0):
                yield r
            return
        self.loop_ghost_init(st, lc)
        self.check_invariants(st, lc, k, "init")
        h = st.fork()
        h.labels = ["loop%d" % k]
        self.havoc(h, self.assigned_names(s.body), lc, k)
        self.loop_ghost_havoc(h, lc, k)
        local = bool(lc.get("body_events")) or lc.get("local_trace")
        outer_trace = list(st.trace)
        if local:
            h.trace = []

        def leave(s_):
            if local:
                s_.trace = outer_trace + [("Loop", k, {g: s_.ghost.get(g) for g in lc.get("ghost", {})})] + s_.trace
            return self.rejoin(st, s_)
        if lc.get("clock"):
            self.clock_advance(h, "loop%d" % k)
        self.assume_invariants(h, lc)
        for st1, c in self.ev_truth(h, s.test):
            if isinstance(c, Raised):
                yield leave(st1), c
                continue
            for st2, taken in self.branch(st1, c, s):
                if not taken:
                    out_st = leave(st2)
                    for r in self.exec_block(out_st, s.orelse):
                        yield r
                    continue
                for st3, out in self.exec_block(st2, s.body):
                    if out is None or isinstance(out, Cont):
                        for i, be in enumerate(lc.get("body_events", [])):
                            z, facts = self.spec_bool(st3, self.pre_state, be, self.spec_scope(st3))
                            self.oblige(st3, "inv-body-events:%d@loop%d[%s]" % (i, k, self.path_label(st3)), z,
                                        props=lc.get("props", self.all_props(self.cur[1])), kind="inv", extra_hyps=facts,
                                        note="ghost events of one iteration")
                        self.loop_ghost_step(st3, lc)
                        self.check_invariants(st3, lc, k, "keep")
                    elif isinstance(out, Brk):
                        yield leave(st3), None
                    else:
                        yield leave(st3), out

    def rejoin(self, outer, inner):
        """continue after the loop: keep the loop-head state, restore the outer path labels"""
        inner.labels = list(outer.labels) + [l for l in inner.labels]
        return inner

    def st_For(self, st, s):
        for st0, it in self.ev(st, s.iter):
            if isinstance(it, Raised):
                yield st0, it
                continue
            for r in self.for_over(st0, s, it, s.target, s.body, s.orelse):
                yield r

    def for_over(self, st, node, it, target, body, orelse):
        # concrete iterables: unroll
        if isinstance(it, (tuple, list, range)) or (isinstance(it, (set, frozenset, dict)) and len(it) <= 64):
            seq = sorted(it, key=repr) if isinstance(it, (set, frozenset)) else list(it)
            for r in self.unroll(st, node, seq, 0, target, body, orelse):
                yield r
            return
        k, lc = self.loop_contract(node)
        restname = lc.get("rest", "rest")
        if isinstance(it, Obj) and it.kind == "vlist":
            # iteration over a list object: over its items at loop entry (the body must not resize it: not checked
            # beyond what the invariant says about the list)
            it = self.heap_get(st, it, "items")
        if isinstance(it, SVal):
            # iterating a dynamic value: its item list if it is a tuple; anything else is the library model's business
            for st1, vl in self.lib.iter_val(self, st, it, node):
                if isinstance(vl, Raised):
                    yield st1, vl
                else:
                    for r in self.for_vl(st1, node, vl, target, body, orelse, k, lc, restname):
                        yield r
            return
        if isinstance(it, SVL):
            for r in self.for_vl(st, node, it, target, body, orelse, k, lc, restname):
                yield r
            return
        if isinstance(it, ops_SymRange):
            for r in self.for_range(st, node, it, target, body, orelse, k, lc):
                yield r
            return
        raise Unsupported("for over %r (line %d)" % (it, node.lineno))

    def unroll(self, st, node, seq, i, target, body, orelse):
        if i == len(seq):
            for r in self.exec_block(st, orelse):
                yield r
            return
        for st1, o in self.assign(st, target, seq[i]):
            if o is not None:
                yield st1, o
                continue
            for st2, out in self.exec_block(st1, body):
                if out is None or isinstance(out, Cont):
                    for r in self.unroll(st2, node, seq, i + 1, target, body, orelse):
                        yield r
                elif isinstance(out, Brk):
                    yield st2, None
                else:
                    yield st2, out

    def for_vl(self, st, node, vl, target, body, orelse, k, lc, restname):
        if self.unroll_depth is not None and self.plain_loop(lc):
            for r in self.vl_unrolled(st, node, vl, target, body, orelse, 0):
                yield r
            return
        st.ghost[restname] = vl
        self.loop_ghost_init(st, lc)
        self.check_invariants(st, lc, k, "init")
        h = st.fork()
        h.labels = ["loop%d" % k]
        outer_trace = list(st.trace)
        h.trace = []            # events of ONE iteration; the loop as a whole becomes one summary event
        names = self.assigned_names(body) | self.assigned_names([ast.Expr(value=target)]) if False else self.assigned_names(body)
        self.havoc(h, names, lc, k)
        rest = SVL(fresh("%s@loop%d" % (restname, k), VL))
        h.ghost[restname] = rest
        self.loop_ghost_havoc(h, lc, k)
        self.assume_invariants(h, lc)
        # exit
        described = bool(lc.get("body_events"))

        def summary(s):
            return ("Loop", k, {g: s.ghost.get(g) for g in lc.get("ghost", {})})
        ex = h.fork().assume(rest.z == VL.nil).label("L%d:exit" % self.rel_line(node))
        ex.trace = outer_trace + ([summary(ex)] if described else [])
        self.use_hints(ex, lc.get("exit_hints", []))
        for r in self.exec_block(self.rejoin(st, ex), orelse):
            yield r
        # one iteration
        it = h.fork().assume(VL.is_cons(rest.z)).label("L%d:iter" % self.rel_line(node))
        it.ghost[restname] = SVL(VL.tl(rest.z))
        for st1, o in self.assign(it, target, SVal(VL.hd(rest.z))):
            if o is not None:
                st1.trace = outer_trace + ([summary(st1)] if described else []) + st1.trace
                yield self.rejoin(st, st1), o
                continue
            for st2, out in self.exec_block(st1, body):
                if out is None or isinstance(out, Cont):
                    if not described:
                        self.oblige(st2, "inv-no-events@loop%d[%s]" % (k, self.path_label(st2)), z3.BoolVal(len(st2.trace) == 0),
                                    props=lc.get("props", self.all_props(self.cur[1])), kind="inv",
                                    note="a loop whose contract does not describe the ghost events of an iteration must not have any")
                    for i, be in enumerate(lc.get("body_events", [])):
                        # `item` names the element this iteration visits, whatever the loop variable is called
                        z, facts = self.spec_bool(st2, self.pre_state, be, self.spec_scope(st2, {"item": SVal(VL.hd(rest.z))}))
                        self.oblige(st2, "inv-body-events:%d@loop%d[%s]" % (i, k, self.path_label(st2)), z,
                                    props=lc.get("props", self.all_props(self.cur[1])), kind="inv", extra_hyps=facts,
                                    note="ghost events of one iteration")
                    self.loop_ghost_step(st2, lc)
                    self.check_invariants(st2, lc, k, "keep")
                elif isinstance(out, Brk):
                    st2.trace = outer_trace + ([summary(st2)] if described else []) + st2.trace
                    yield self.rejoin(st, st2), None
                else:
                    st2.trace = outer_trace + ([summary(st2)] if described else []) + st2.trace
                    yield self.rejoin(st, st2), out

    def for_range(self, st, node, rng, target, body, orelse, k, lc):
        if not isinstance(target, ast.Name):
            raise Unsupported("for-range target")
        iname = target.id
        if self.unroll_depth is not None and self.plain_loop(lc):
            for r in self.range_unrolled(st, node, rng.lo, rng.hi, iname, body, orelse, 0):
                yield r
            return
        st.env[iname] = i2v(rng.lo)
        self.loop_ghost_init(st, lc)
        self.check_invariants(st, lc, k, "init")
        h = st.fork()
        h.labels = ["loop%d" % k]
        self.havoc(h, self.assigned_names(body), lc, k)
        self.loop_ghost_havoc(h, lc, k)
        i = SInt(fresh("%s@loop%d" % (iname, k), Int))
        h.env[iname] = i
        h.assume(i.z >= rng.lo)
        self.assume_invariants(h, lc)
        ex = h.fork().assume(i.z >= rng.hi).label("L%d:exit" % self.rel_line(node))
        self.use_hints(ex, lc.get("exit_hints", []))
        for r in self.exec_block(self.rejoin(st, ex), orelse):
            yield r
        it = h.fork().assume(i.z < rng.hi).label("L%d:iter" % self.rel_line(node))
        for st2, out in self.exec_block(it, body):
            if out is None or isinstance(out, Cont):
                st2.env[iname] = i2v(i.z + 1)
                self.loop_ghost_step(st2, lc)
                self.check_invariants(st2, lc, k, "keep")
            elif isinstance(out, Brk):
                yield self.rejoin(st, st2), None
            else:
                yield self.rejoin(st, st2), out

    # =========================================================================================
    # expressions: generators of (state, value | Raised)
    # =========================================================================================
    def ev(self, st, e):
        m = getattr(self, "ex_" + type(e).__name__, None)
        if m is None:
            raise Unsupported("expression %s at line %d" % (type(e).__name__, e.lineno))
        return m(st, e)

    def ev_seq(self, st, exprs):
        """evaluate expressions left to right; yields (state, [values]) or (state, Raised)"""
        if not exprs:
            yield st, []
            return
        for st1, v in self.ev(st, exprs[0]):
            if isinstance(v, Raised):
                yield st1, v
                continue
            for st2, rest in self.ev_seq(st1, exprs[1:]):
                if isinstance(rest, Raised):
                    yield st2, rest
                else:
                    yield st2, [v] + rest

    def ex_Constant(self, st, e):
        yield st, e.value

    def ex_Name(self, st, e):
        n = e.id
        if n in st.env:
            yield st, st.env[n]
            return
        mod = self.cur[3]
        if hasattr(mod, n):
            yield st, self.global_value(mod, n)
            return
        import builtins
        if hasattr(builtins, n):
            yield st, getattr(builtins, n)
            return
        yield st, Raised(NameError, ExcObj(NameError), {"name": n})

    def global_value(self, mod, n):
        v = getattr(mod, n)
        return self.lib.wrap_global(self, mod, n, v)

    def ex_Tuple(self, st, e):
        for st1, vs in self.ev_seq(st, e.elts):
            yield st1, (vs if isinstance(vs, Raised) else tuple(vs))

    def ex_List(self, st, e):
        for st1, vs in self.ev_seq(st, e.elts):
            if isinstance(vs, Raised):
                yield st1, vs
            else:
                yield st1, self.lib.new_list(self, st1, vs, e)

    def ex_Dict(self, st, e):
        """a dict literal with constant keys: a Python dict of the evaluated values (a value, not a heap object)"""
        if any(k is None or not isinstance(k, ast.Constant) for k in e.keys):
            raise Unsupported("dict literal with computed keys (line %d)" % e.lineno)
        for st1, vs in self.ev_seq(st, list(e.values)):
            if isinstance(vs, Raised):
                yield st1, vs
            else:
                d_ = {k.value: v for k, v in zip(e.keys, vs)}
                self.created_ids.add(id(d_))
                self._keepalive.append(d_)
                yield st1, d_

    def ex_JoinedStr(self, st, e):
        yield st, SStr(fresh("fstr", Bytes))

    def ex_Lambda(self, st, e):
        yield st, Closure(e, st.env, "%s.<locals>.<lambda>" % self.cur[0].qualname)

    def ex_IfExp(self, st, e):
        for st1, c in self.ev_truth(st, e.test):
            if isinstance(c, Raised):
                yield st1, c
                continue
            for st2, taken in self.branch(st1, c, e):
                for r in self.ev(st2, e.body if taken else e.orelse):
                    yield r

    def ex_BoolOp(self, st, e):
        return self.boolop(st, e, e.values)

    def boolop(self, st, e, values):
        first = values[0]
        for st1, v in self.ev(st, first):
            if isinstance(v, Raised) or len(values) == 1:
                yield st1, v
                continue
            t = self.truth_of(st1, v)
            for st2, taken in self.branch(st1, t, e):
                stop = (not taken) if isinstance(e.op, ast.And) else taken
                if stop:
                    yield st2, v
                else:
                    for r in self.boolop(st2, e, values[1:]):
                        yield r

    def ex_UnaryOp(self, st, e):
        for st1, v in self.ev(st, e.operand):
            if isinstance(v, Raised):
                yield st1, v
            elif isinstance(e.op, ast.Not):
                t = self.truth_of(st1, v)
                yield st1, ((not t) if isinstance(t, bool) else b2v(z3.Not(t)))
            elif isinstance(e.op, ast.USub):
                if isinstance(v, SInt):
                    yield st1, i2v(-v.z)
                elif not is_sym(v):
                    yield st1, -v
                else:
                    raise Unsupported("unary minus")
            else:
                raise Unsupported("unary op")

    def narrow(self, st, v, kind, node, what):
        """a dynamic value used where the operation is only modelled for one static kind: the value must
        provably be of that kind here (obligation), then it is projected"""
        if not isinstance(v, SVal):
            return v
        if kind == "num":
            f64_real = self.spec.uf["f64_real"]
            ok = z3.Or(Val.is_VInt(v.z), Val.is_VFloat(v.z))
            self.oblige(st, "dynamic-type:%s is a number@L%d[%s]" % (what, self.rel_line(node), self.path_label(st)), ok,
                        props=self.all_props(self.cur[1]), kind="pre",
                        note="arithmetic / ordering on a dynamically typed value is modelled for int and float only")
            st.assume(ok)
            return SReal(z3.If(Val.is_VInt(v.z), z3.ToReal(Val.vi(v.z)), f64_real(Val.vf(v.z))))
        test, proj, W = {"bool": (Val.is_VBool, Val.vb, SBool), "str": (Val.is_VStr, Val.vs, SStr),
                         "bytes": (Val.is_VBytes, Val.vby, SBytes), "int": (Val.is_VInt, Val.vi, SInt)}[kind]
        self.oblige(st, "dynamic-type:%s is %s@L%d[%s]" % (what, kind, self.rel_line(node), self.path_label(st)),
                    test(v.z), props=self.all_props(self.cur[1]), kind="pre",
                    note="operation on a dynamically typed value is modelled only for this type")
        st.assume(test(v.z))
        return W(proj(v.z))

    def ex_BinOp(self, st, e):
        for st1, vs in self.ev_seq(st, [e.left, e.right]):
            if isinstance(vs, Raised):
                yield st1, vs
                continue
            a, b = vs
            if isinstance(a, SVal) or isinstance(b, SVal):
                if isinstance(e.op, (ast.BitOr, ast.BitAnd)):
                    a, b = self.narrow(st1, a, "bool", e, "operand"), self.narrow(st1, b, "bool", e, "operand")
                elif isinstance(e.op, (ast.Sub, ast.Mult, ast.FloorDiv, ast.Mod)):
                    a, b = self.narrow(st1, a, "int", e, "operand"), self.narrow(st1, b, "int", e, "operand")
                elif isinstance(e.op, ast.Add):
                    other = b if isinstance(a, SVal) else a
                    k = "str" if ops.is_strlike(other) else "bytes" if ops.is_byteslike(other) else \
                        "num" if isinstance(other, SReal) else "int" if ops.is_intlike(other) else "str"
                    if self.cur[0].dynamic_errors and k == "str" and not (isinstance(a, SVal) and isinstance(b, SVal)):
                        # text + dynamic value: text if the value is text; TypeError for any other plain value; the object's
                        # own __add__ / __radd__ (a ghost Op event) for a heap object
                        sv = a if isinstance(a, SVal) else b
                        ln = self.rel_line(e)
                        bad = st1.fork().assume(z3.And(z3.Not(Val.is_VStr(sv.z)), z3.Not(Val.is_VRef(sv.z)))).label("L%d:+ of text and non-text" % ln)
                        if self.feasible(bad):
                            yield bad, Raised(TypeError, ExcObj(TypeError))
                        ref = st1.fork().assume(Val.is_VRef(sv.z))
                        if self.feasible(ref):
                            for r in self.lib.op_event(self, ref, "add", sv, [other], e):
                                yield r
                        st1.assume(Val.is_VStr(sv.z))
                        a = SStr(Val.vs(a.z)) if isinstance(a, SVal) else a
                        b = SStr(Val.vs(b.z)) if isinstance(b, SVal) else b
                    else:
                        a, b = self.narrow(st1, a, k, e, "operand"), self.narrow(st1, b, k, e, "operand")
            for r in self.with_errs(st1, ops.binop(e.op, a, b), e):
                yield r

    def with_errs(self, st, res, node):
        v, errs = res
        ok = st
        for cls, cond in errs:
            if _simp_false(cond):
                continue
            if _simp_true(cond):
                yield st.label("L%d:raise %s" % (self.rel_line(node), cls.__name__)), Raised(cls, ExcObj(cls))
                return
            bad = ok.fork().assume(cond).label("L%d:raise %s" % (self.rel_line(node), cls.__name__))
            if self.feasible(bad):
                yield bad, Raised(cls, ExcObj(cls))
            ok = ok.fork().assume(z3.Not(cond))
        yield ok, v

    def ex_Compare(self, st, e):
        return self.compare_chain(st, e, e.left, list(zip(e.ops, e.comparators)))

    def compare_chain(self, st, e, left, rest, leftval=None):
        def go(st, lv, rest):
            op, rnode = rest[0]
            for st1, rv in self.ev(st, rnode):
                if isinstance(rv, Raised):
                    yield st1, rv
                    continue
                import sys as _sys
                if isinstance(op, (ast.In, ast.NotIn)) and rv is _sys.modules and is_sym(lv):
                    v = self.lib.contains_sysmodules(self, st1, lv)
                    outs = [(st1, self.negate(v) if isinstance(op, ast.NotIn) else v)]
                elif isinstance(op, (ast.In, ast.NotIn)) and isinstance(rv, Obj):
                    outs = self.lib.contains_obj(self, st1, rv, lv, e)
                    if isinstance(op, ast.NotIn):
                        outs = [(s, v if isinstance(v, Raised) else self.negate(v)) for s, v in outs]
                else:
                    if isinstance(op, (ast.Lt, ast.LtE, ast.Gt, ast.GtE)) and (isinstance(lv, SVal) or isinstance(rv, SVal)):
                        k = "num"       # ordering of dynamic values: ints and floats, compared as reals
                        lv2 = self.narrow(st1, lv, k, e, "comparison operand")
                        rv = self.narrow(st1, rv, k, e, "comparison operand")
                    else:
                        lv2 = lv
                    outs = self.with_errs(st1, ops.compare(op, lv2, rv), e)
                for st2, v in outs:
                    if isinstance(v, Raised) or len(rest) == 1:
                        yield st2, v
                        continue
                    for st3, taken in self.branch(st2, truth(v), e):
                        if not taken:
                            yield st3, False
                        else:
                            for r in go(st3, rv, rest[1:]):
                                yield r
        for st0, lv in self.ev(st, left):
            if isinstance(lv, Raised):
                yield st0, lv
                continue
            for r in go(st0, lv, rest):
                yield r

    def negate(self, v):
        t = truth(v)
        return (not t) if isinstance(t, bool) else b2v(z3.Not(t))

    def ex_Attribute(self, st, e):
        gm = self.cur[0].getattr_models if self.cur is not None else None
        if gm and isinstance(e.ctx, ast.Load):
            src = ast.unparse(e)
            if src in gm:
                # a property read the contract abstracts by a library model (stated in the contract and the evidence)
                self.lib.used.add("abstracted attribute read `%s` -> model %s" % (src, gm[src]))
                for r in self.lib.apply_external(self, st, self.store.externals[gm[src]], [self.abstract_self(st)], {}, e):
                    yield r
                return
        for st1, o in self.ev(st, e.value):
            if isinstance(o, Raised):
                yield st1, o
                continue
            for r in self.getattr(st1, o, e.attr, e):
                yield r

    def getattr(self, st, o, name, node):
        """attribute read; generator of (state, value)"""
        if isinstance(o, Obj):
            for r in self.lib.obj_getattr(self, st, o, name, node):
                yield r
            return
        if isinstance(o, Sym) and name in self.cur[0].self_methods and o is st.env.get(self.cur[0].self_name):
            # `self.<name>` for a name the class itself defines and that no generated subclass may override
            # (the contract states why): resolved statically to the class's own function
            cls = getattr(self.cur[3], self.cur[0].qualname.split(".")[0])
            self.lib.used.add("self.%s inside %s resolves to the class's own method: %s" % (
                name, self.cur[0].qualname, self.cur[0].self_methods[name]))
            yield st, BoundMethod(o, vars(cls)[name], name)
            return
        if isinstance(o, Sym):
            for r in self.lib.sym_getattr(self, st, o, name, node):
                yield r
            return
        if isinstance(o, tuple):
            raise Unsupported("attribute %s of tuple" % name)
        # concrete Python object: real attribute
        try:
            v = getattr(o, name)
        except AttributeError:
            yield st, Raised(AttributeError, ExcObj(AttributeError))
            return
        except Exception as ex:        # e.g. ClosedFile.__getattr__ raising EOFError
            yield st.label("L%d:.%s raises %s" % (self.rel_line(node), name, type(ex).__name__)), \
                Raised(type(ex), ExcObj(type(ex)))
            return
        if isinstance(o, types.ModuleType) or isinstance(o, type):
            yield st, self.lib.wrap_global(self, o, name, v)
            return
        if isinstance(v, types.MethodType) and self.is_repo_function(v.__func__) and v.__self__ is o:
            yield st, BoundMethod(o, v.__func__, name)
            return
        if callable(v) and not isinstance(v, type):
            yield st, BoundMethod(o, v, name)
            return
        yield st, v

    def table_models(self):
        """source text of the dispatch tables whose calls the current contract abstracts: {"self._HANDLERS": model}"""
        out = {}
        for src, model in (self.cur[0].abstract_calls or {}).items():
            try:
                n = ast.parse(src, mode="eval").body
            except SyntaxError:
                continue
            if isinstance(n, ast.Subscript):
                out[ast.unparse(n.value)] = model
        return out

    def table_lookup(self, st, e, model):
        """`table[key]` on its own (the call comes later): the model's lookup failures happen here, the rest when it is called"""
        ext = self.store.externals[model]
        names = list(ext.params)
        for st1, k in self.ev(st, e.slice):
            if isinstance(k, Raised):
                yield st1, k
                continue
            env = {names[0]: self.abstract_self(st1), names[1]: k}
            found = st1
            for oc in ext.outcomes:
                if oc.get("at") != "lookup":
                    continue
                conds = []
                for a in oc.get("when", []):
                    z, facts = self.spec.evaluate_bool(self, a, st1, st1, env)
                    st1.pc.extend(facts)
                    conds.append(z)
                c = z3.And(conds) if conds else z3.BoolVal(True)
                bad = st1.fork().assume(c).label("L%d:%s %s" % (self.rel_line(e), model, oc.get("label", "lookup fails")))
                if self.feasible(bad):
                    ecls = self.spec.exc_class(oc["raise"], None)
                    yield bad, Raised(ecls, ExcObj(ecls))
                found = found.fork().assume(z3.Not(c))
            if self.feasible(found):
                yield found, TableRef(model, k)

    def ex_Subscript(self, st, e):
        if isinstance(e.ctx, ast.Load) and self.cur is not None and self.cur[0].abstract_calls:
            tm = self.table_models()
            src = ast.unparse(e.value)
            if src in tm:
                for r in self.table_lookup(st, e, tm[src]):
                    yield r
                return
        for st1, o in self.ev(st, e.value):
            if isinstance(o, Raised):
                yield st1, o
                continue
            if isinstance(e.slice, ast.Slice):
                parts = [e.slice.lower, e.slice.upper, e.slice.step]
                for st2, vs in self.ev_seq(st1, [p for p in parts if p is not None]):
                    if isinstance(vs, Raised):
                        yield st2, vs
                        continue
                    it = iter(vs)
                    lo, hi, step = [next(it) if p is not None else None for p in parts]
                    for r in self.lib.slice(self, st2, o, lo, hi, step, e):
                        yield r
                continue
            for st2, k in self.ev(st1, e.slice):
                if isinstance(k, Raised):
                    yield st2, k
                    continue
                for r in self.lib.getitem(self, st2, o, k, e):
                    yield r

    def ex_GeneratorExp(self, st, e):
        raise Unsupported("generator expression outside tuple()/all()/any() at line %d" % e.lineno)

    # -- calls ----------------------------------------------------------------------------------
    def ex_Call(self, st, e):
        ac = self.cur[0].abstract_calls
        if ac:
            src = ast.unparse(e.func)
            if src in ac:
                for r in self.abstract_call(st, e, src, ac[src]):
                    yield r
                return
            if isinstance(e.func, ast.Subscript):
                tm = self.table_models()
                if ast.unparse(e.func.value) in tm:          # the same table, its key written differently
                    for r in self.abstract_call(st, e, src, tm[ast.unparse(e.func.value)]):
                        yield r
                    return
        # comprehension idioms first
        if isinstance(e.func, ast.Name) and e.func.id in ("tuple", "all", "any", "list") and len(e.args) == 1 \
                and isinstance(e.args[0], ast.GeneratorExp) and e.func.id not in st.env:
            for r in self.lib.comprehension(self, st, e.func.id, e.args[0], e):
                yield r
            return
        for st1, f in self.ev(st, e.func):
            if isinstance(f, Raised):
                yield st1, f
                continue
            if isinstance(f, TableRef):
                # the looked-up table entry is called: the abstracted call, with the key it was looked up under
                exprs = [a.value if isinstance(a, ast.Starred) else a for a in e.args] + [k.value for k in e.keywords]
                for st2, vs in self.ev_seq(st1, exprs):
                    if isinstance(vs, Raised):
                        yield st2, vs
                        continue
                    ext = self.store.externals[f.model]
                    for r in self.lib.apply_external(self, st2, ext, [self.abstract_self(st2), f.key] + list(vs), {}, e, skip_at="lookup"):
                        yield r
                continue
            plain_args = [a for a in e.args if not isinstance(a, ast.Starred)]
            star = [a for a in e.args if isinstance(a, ast.Starred)]
            if star and (len(star) > 1 or e.args[-1] is not star[0]):
                raise Unsupported("star-args not in last position")
            kwnames = [k.arg for k in e.keywords]
            if any(k is None for k in kwnames):
                for r in self.lib.call_with_dstar(self, st1, f, e):
                    yield r
                continue
            exprs = plain_args + [s.value for s in star] + [k.value for k in e.keywords]
            for st2, vs in self.ev_seq(st1, exprs):
                if isinstance(vs, Raised):
                    yield st2, vs
                    continue
                args = vs[:len(plain_args)]
                rest = vs[len(plain_args):]
                starval = None
                if star:
                    starval = rest[0]
                    rest = rest[1:]
                kwargs = dict(zip(kwnames, rest))
                if starval is not None:
                    if isinstance(starval, (tuple, list)):
                        args = args + list(starval)
                    else:
                        for r in self.lib.call_star_symbolic(self, st2, f, args, starval, kwargs, e):
                            yield r
                        continue
                for r in self.call(st2, f, args, kwargs, e):
                    yield r

    def abstract_call(self, st, e, src, model):
        """a call the contract abstracts by a library model (stated in the contract store and the evidence):
        the arguments are still evaluated by the real code's rules; `log` = no effect, cannot raise (A-LOG)"""
        self.lib.used.add("abstracted call `%s(...)` -> model %s" % (src, model))
        exprs = [a.value if isinstance(a, ast.Starred) else a for a in e.args] + [k.value for k in e.keywords]
        extra = []
        if isinstance(e.func, ast.Subscript):
            extra = [e.func.slice]            # table dispatch: the key is an argument of the model
        for st1, vs in self.ev_seq(st, extra + exprs):
            if isinstance(vs, Raised):
                yield st1, vs
                continue
            if model == "log":
                yield st1, None
                continue
            ext = self.store.externals[model]
            for r in self.lib.apply_external(self, st1, ext, [self.abstract_self(st1)] + list(vs), {}, e):
                yield r

    def abstract_self(self, st):
        return st.env.get("self")

    def call(self, st, f, args, kwargs, node):
        """apply callee value f; generator of (state, value | Raised)"""
        if isinstance(f, Choice):
            remaining = st
            for cond, alt in f.alts:
                if _simp_false(cond):
                    continue
                b = remaining.fork().assume(cond).label("L%d:%s" % (self.rel_line(node), getattr(alt, "__name__", "alt")))
                if self.feasible(b):
                    for r in self.call(b, alt, args, kwargs, node):
                        yield r
                remaining = remaining.fork().assume(z3.Not(cond))
            if f.has_default:
                remaining.label("L%d:default" % self.rel_line(node))
                if self.feasible(remaining):
                    for r in self.call(remaining, f.default, args, kwargs, node):
                        yield r
            return
        if isinstance(f, BoundMethod):
            if self.is_repo_function(f.func):
                for r in self.call_repo(st, f.func, [f.recv] + list(args), kwargs, node):
                    yield r
                return
            for r in self.lib.call_method(self, st, f.recv, f.name, f.func, args, kwargs, node):
                yield r
            return
        if isinstance(f, LocalClass):
            if args or kwargs or "__init__" in f.members or "__new__" in f.members:
                raise Unsupported("instantiation of a local class with arguments / a constructor (line %d)" % node.lineno)
            yield st, LocalInstance(f)
            return
        if isinstance(f, Closure):
            for r in self.call_closure(st, f, args, kwargs, node):
                yield r
            return
        if isinstance(f, type) and "__init__" in vars(f) and self.is_repo_function(vars(f)["__init__"]):
            # instantiation of a repository class: a fresh object, initialised by __init__'s contract
            o = Obj(f, "%s@L%d" % (f.__name__, self.rel_line(node)), allocated=True)
            for st1, r in self.call_repo(st, vars(f)["__init__"], [o] + list(args), kwargs, node):
                yield st1, (r if isinstance(r, Raised) else o)
            return
        if self.is_repo_function(f):
            for r in self.call_repo(st, f, args, kwargs, node):
                yield r
            return
        for r in self.lib.call_builtin(self, st, f, args, kwargs, node):
            yield r

    def exc_universe(self):
        """exception classes the function under analysis distinguishes (named in its handlers, `is` tests or
        its contract): an unknown callee may raise each of them, besides the two generic representatives"""
        if getattr(self, "_universe_for", None) is self.cur[4]:
            return self._universe
        classes = []
        mod = self.cur[3]
        import builtins
        distinguishing = []
        for n in ast.walk(self.cur[4]):
            if isinstance(n, ast.ExceptHandler) and n.type is not None:
                distinguishing.extend(ast.walk(n.type))
            elif isinstance(n, ast.Compare) and any(isinstance(o, (ast.Is, ast.IsNot)) for o in n.ops):
                distinguishing.extend(ast.walk(n))
            elif isinstance(n, ast.Call) and isinstance(n.func, ast.Name) and n.func.id in ("isinstance", "issubclass") and len(n.args) == 2:
                distinguishing.extend(ast.walk(n.args[1]))
            elif isinstance(n, ast.Raise) and n.exc is not None:
                distinguishing.extend(ast.walk(n.exc))
        for n in distinguishing:
            name = n.id if isinstance(n, ast.Name) else None
            if isinstance(n, ast.Attribute) and isinstance(n.value, ast.Name):
                base = getattr(mod, n.value.id, None)
                c = getattr(base, n.attr, None) if isinstance(base, types.ModuleType) else None
            elif name:
                c = getattr(mod, name, None) if hasattr(mod, name) else getattr(builtins, name, None)
            else:
                continue
            if isinstance(c, type) and issubclass(c, BaseException) and c not in classes and \
                    c not in (Exception, BaseException):
                classes.append(c)
        for b in self.cur[0].behaviours.values():
            for ename in b.raises:
                try:
                    c = self.spec.exc_class(ename, mod)
                except Exception:
                    continue
                if isinstance(c, type) and c not in classes and c not in (Exception, BaseException):
                    classes.append(c)
        self._universe_for = self.cur[4]
        self._universe = classes
        return classes

    def call_key(self, name):
        k = self.call_ordinals.get(name, 0)
        return "%s#%d" % (name, k)

    def call_repo(self, st, f, args, kwargs, node):
        rel = self.relfile_of(f)
        c = self.store.find(rel, f.__qualname__)
        if c is None:
            raise CheckerError("call to repository function %s::%s without a contract (line %d of %s)" % (
                rel, f.__qualname__, node.lineno, self.cur[0].target))
        if c.inline:
            return self.inline_call(st, c, f, args, kwargs, node)
        return self.apply_contract(st, c, f, args, kwargs, node)

    def bind_params(self, f, args, kwargs):
        sig = inspect.signature(f)
        from .libmodels import VarArgs
        va = [a for a in args if isinstance(a, VarArgs)]
        if va:
            args = [a for a in args if not isinstance(a, VarArgs)]
        try:
            ba = sig.bind(*args, **kwargs)
        except TypeError:
            return None
        ba.apply_defaults()
        out = dict(ba.arguments)
        for p in sig.parameters.values():
            if p.kind == p.VAR_POSITIONAL:
                out[p.name] = va[0].vl if va else tuple(out.get(p.name, ()))
            if p.kind == p.VAR_KEYWORD:
                out[p.name] = dict(out.get(p.name, {}))
                self.created_ids.add(id(out[p.name]))          # the **kwargs dict is built by the call itself: a new object
                self._keepalive.append(out[p.name])
        return out

    def inline_call(self, st, c, f, args, kwargs, node):
        """small helpers (stated in the contract store as inline) are executed in place"""
        self.inlined.add(c.target)
        funcobj, fnode, mod, src = self.locate(c.file, c.qualname)
        bound = self.bind_params(f, args, kwargs)
        if bound is None:
            yield st, Raised(TypeError, ExcObj(TypeError))
            return
        saved_cur, saved_env, saved_loops = self.cur, st.env, self.loop_nodes
        self.cur = (self.cur[0], self.cur[1], funcobj, mod, self.cur[4])
        inner_line = fnode.lineno
        st.env = dict(bound)
        outs = list(self.exec_block(st, fnode.body))
        self.cur = saved_cur
        self.loop_nodes = saved_loops
        for st1, out in outs:
            st1.env = dict(saved_env)
            if isinstance(out, Raised):
                yield st1, out
            elif isinstance(out, Ret):
                yield st1, out.value
            else:
                yield st1, None

    def call_closure(self, st, f, args, kwargs, node):
        raise Unsupported("call of a nested function (line %d)" % node.lineno)

    def coerce(self, st, v, sort, what, node):
        """adapt an argument to the callee's declared parameter sort; may add a pre obligation"""
        if sort == "val":
            return SVal(to_val(v)) if not isinstance(v, SVal) else v
        if sort == "vl":
            if isinstance(v, SVL):
                return v
            if isinstance(v, tuple):
                return SVL(to_vl(v))
        if sort in ("joinlist",) or sort.startswith("obj:"):
            if isinstance(v, Obj):
                return v
            if isinstance(v, SVal):
                raise Unsupported("dynamic value passed where heap object expected (%s)" % what)
        if isinstance(v, SVal) and sort in ("int", "bool", "bytes", "str", "f64", "vl", "fset", "slice", "complex"):
            ident = lambda z: z
            test, proj, W = {"int": (Val.is_VInt, Val.vi, SInt), "bool": (Val.is_VBool, Val.vb, SBool),
                             "bytes": (Val.is_VBytes, Val.vby, SBytes), "str": (Val.is_VStr, Val.vs, SStr),
                             "f64": (Val.is_VFloat, Val.vf, SF64), "vl": (Val.is_VTuple, Val.titems, SVL),
                             "fset": (Val.is_VFset, Val.fitems, WRAP["fset"]),
                             "slice": (Val.is_VSlice, ident, WRAP["slice"]),
                             "complex": (Val.is_VComplex, ident, WRAP["complex"])}[sort]
            self.oblige(st, "pre-type:%s@L%d[%s]" % (what, self.rel_line(node), self.path_label(st)), test(v.z),
                        props=self.all_props(self.cur[1]), kind="pre",
                        note="argument must have exactly the declared type of the callee's parameter")
            st.assume(test(v.z))
            return W(proj(v.z))
        if sort == "int" and isinstance(v, (SInt, int)) and not isinstance(v, bool):
            return v
        if sort == "bool" and isinstance(v, (SBool, bool)):
            return v
        if sort == "bytes" and isinstance(v, (SBytes, bytes)):
            return v
        if sort == "str" and isinstance(v, (SStr, str)):
            return v
        if sort == "f64" and isinstance(v, SF64):
            return v
        if sort == "any":
            return v
        if sort.startswith("const:"):
            want = self.spec.eval_const(sort[6:])
            same = ops.eq(v, want)
            if same is not True:
                self.oblige(st, "pre-type:%s@L%d[%s]" % (what, self.rel_line(node), self.path_label(st)), same,
                            props=self.all_props(self.cur[1]), kind="pre",
                            note="this behaviour of the callee is specified for the argument value %r only" % (want,))
            return want
        if sort == "none" and v is None:
            return v
        if sort == "real" and ops.is_reallike(v):
            return v if isinstance(v, SReal) else SReal(ops.zreal(v))
        if sort == "real" and isinstance(v, SVal):
            return self.narrow(st, v, "num", node, what)
        if sort == "vl" and isinstance(v, (tuple, list)):
            return SVL(to_vl(v))
        if sort == "dict" and isinstance(v, dict):
            return self.lib.lift_dict(self, st, v, what)
        # wrong static type: the call violates the callee's typing precondition
        self.oblige(st, "pre-type:%s@L%d[%s]" % (what, self.rel_line(node), self.path_label(st)), FALSE,
                    props=self.all_props(self.cur[1]), kind="pre",
                    note="argument %r does not have the callee's declared parameter sort %s" % (v, sort))
        return self.fresh_of(sort, what)

    def apply_contract(self, st, c, f, args, kwargs, node):
        """callee contract at a call site, followed by the interference the caller's contract declares for it"""
        name = f.__name__
        key = self.call_key(name)
        caller_beh = self.cur[1]
        hint = caller_beh.calls.get(key) or caller_beh.calls.get(name) or {}
        inter = hint.get("interference")
        for st1, res in self._apply_contract(st, c, f, args, kwargs, node):
            if inter:
                self.interfere(st1, inter, node)
            yield st1, res

    def interfere(self, st, inter, node):
        """while the callee ran, re-entrant code (a proxy finalizer's _send on this very thread) may have APPENDED
        messages to the list: list' = list ++ extra, ghost' = ghost ++ extra, for an arbitrary `extra`"""
        ln = self.rel_line(node)
        if inter.get("havoc") or inter.get("clock"):
            # re-entrant code reached through the callee (a reply dispatched while serving) may have changed these
            before = st.fork()
            self.havoc_modifies(st, self.spec_scope(st), inter.get("havoc", []), "reentry@L%d" % ln)
            if inter.get("clock"):
                self.clock_advance(st, "L%d" % ln)
            for a in inter.get("assume", []):
                z, facts = self.spec.evaluate_bool(self, a, st, before, self.spec_scope(st))
                st.pc.extend(facts)
                st.assume(z)
            return
        lst, _ = self.spec.evaluate(self, inter["vlist"], st, st, self.spec_scope(st))
        extra = SVL(fresh("reentrant_appends@L%d" % ln, VL))
        items = self.heap_get(st, lst, "items")
        st.ghost["Q_before"] = items
        st.heap[(lst.oid, "items")] = SVL(self.lib.R(self, st, "app", items, extra).z)
        g = inter.get("ghost")
        if g:
            st.ghost[g[0] + "_before"] = st.ghost[g]
            st.ghost[g] = SVL(self.lib.R(self, st, "app", st.ghost[g], extra).z)
        st.ghost["extra"] = extra
        for a in inter.get("assume", []):
            z, facts = self.spec_bool(st, self.pre_state, a, self.spec_scope(st))
            st.pc.extend(facts)
            st.assume(z)
        self.use_hints(st, inter.get("hints", []))

    def _apply_contract(self, st, c, f, args, kwargs, node):
        name = f.__name__
        key = self.call_key(name)
        caller_beh = self.cur[1]
        hint = caller_beh.calls.get(key) or caller_beh.calls.get(name) or caller_beh.calls.get("*") or {}
        self.call_ordinals[name] = self.call_ordinals.get(name, 0) + 1
        bound = self.bind_params(f, args, kwargs)
        ln = self.rel_line(node)
        if bound is None:
            yield st.label("L%d:arity" % ln), Raised(TypeError, ExcObj(TypeError))
            return
        bname = hint.get("behaviour")
        if bname is None and c.dispatch and not getattr(self, "_dispatch_forced", None):
            for cond, bn in c.dispatch:
                if cond is None:
                    bname = bn
                    break
                cv, _ = self.spec.evaluate(self, cond, st, st, dict(bound))
                t = truth(cv)
                if not isinstance(t, bool):
                    t = z3.simplify(t)
                    if z3.is_true(t):
                        t = True
                    elif z3.is_false(t):
                        t = False
                    else:
                        # the selecting condition is not decided on this path: one path per alternative
                        yes = st.fork().assume(t).label("L%d:%s" % (ln, cond))
                        if self.feasible(yes):
                            self._dispatch_forced = bn
                            try:
                                for r in self._apply_contract(yes, c, f, args, kwargs, node):
                                    yield r
                            finally:
                                self._dispatch_forced = None
                        st.assume(z3.Not(t))
                        self.call_ordinals[name] = self.call_ordinals.get(name, 1) - 1
                        continue
                if t:
                    bname = bn
                    break
        if getattr(self, "_dispatch_forced", None):
            bname = self._dispatch_forced
            self._dispatch_forced = None
        if bname is None:
            bname = caller_beh.name if caller_beh.name in c.behaviours else "default"
        if bname not in c.behaviours:
            raise CheckerError("callee %s has no behaviour %s" % (c.target, bname))
        beh = c.behaviours[bname]
        env = {}
        for pname, v in bound.items():
            if pname not in c.params:
                raise CheckerError("contract of %s lacks parameter %s" % (c.target, pname))
            env[pname] = self.coerce(st, v, beh.params.get(pname, c.params[pname]), "%s.%s" % (name, pname), node)
        for fv, srt in c.free.items():
            if srt.startswith("global:"):
                env[fv] = self.global_obj(self.contract_module(c), fv, srt[7:])     # the callee's module-level container
        # ghost instantiation from the caller's hints
        caller_scope = self.spec_scope(st)
        for g, sort in beh.ghost.items():
            gx = hint.get("ghost", {}).get(g)
            if gx is None:
                if beh.requires and any(re.search(r"\b%s\b" % re.escape(g), r) for r in beh.requires):
                    raise CheckerError("%s: call %s needs ghost argument %s (behaviour %s)" % (
                        self.cur[0].target, key, g, bname))
                # a universally quantified ghost the caller does not care about: any value is a valid instance
                env[g] = self.fresh_of(sort, "%s.ghost.%s@L%d" % (name, g, ln))
                continue
            gv, facts = self.spec_value(st, self.pre_state, gx, caller_scope)
            st.pc.extend(facts)
            env[g] = self.coerce(st, gv, sort, "%s.ghost.%s" % (name, g), node)
        pre = st.fork()
        pre.env = dict(env)          # old(...) in the callee's clauses sees the callee's parameters
        pre.ghost = {}
        lab = self.path_label(st)
        for i, r in enumerate(beh.requires):
            try:
                z, facts = self.spec.evaluate_bool(self, r, st, pre, env)
            except Unsupported:
                # a precondition that cannot even be evaluated in this state (a field of a model object that is not there):
                # harmless when the path is dead anyway - dropped only if the solver PROVES its condition unsatisfiable
                if not self.solver_feasible(st, 1000):
                    return
                raise
            self.oblige(st, "pre:%s.%d@L%d[%s]" % (name, i, ln, lab), z, props=self.all_props(caller_beh), kind="pre",
                        extra_hyps=facts, note="callee precondition: " + r)
            st.pc.extend(facts)
            st.assume(z)
        self.used_callee_clauses.add((c.target, bname))
        # exceptional exits
        import re as _re
        for ename, spec in beh.raises.items():
            ecls0 = self.spec.exc_class(ename, sys.modules[f.__module__])
            broad = ecls0 in (Exception, BaseException)
            if broad:
                # "some exception": one path per representative class the caller or the callee's clauses distinguish
                named = []
                import builtins as _b
                for sx in spec.get("state", []):
                    for m in _re.findall(r"exc_is\(exc, '([A-Za-z_.]+)'\)", sx):
                        k = getattr(_b, m, None)
                        if isinstance(k, type) and k not in named:
                            named.append(k)
                classes = [AnyException] + ([AnyBaseException] if ecls0 is BaseException else []) + \
                    [k for k in list(self.exc_universe()) + named if issubclass(k, ecls0)]
                seen = []
                classes = [k for k in classes if not (k in seen or seen.append(k))]
            else:
                classes = [ecls0]
            variants = [dict(spec, **v) for v in spec["variants"]] if spec.get("variants") else [spec]
            for ecls, spec in [(k, v) for k in classes for v in variants]:
                b = st.fork().label("L%d:%s raises %s%s" % (ln, name, ecls.__name__,
                                                           (" [%s]" % spec["label"]) if spec.get("label") else ""))
                self.havoc_modifies(b, env, spec.get("modifies", beh.modifies), "%s@L%d" % (name, ln))
                if beh.clock:
                    self.clock_advance(b, "%s@L%d" % (name, ln))
                for cond in ([spec["when"]] if spec.get("when") else []) + ([spec["only_when"]] if spec.get("only_when") else []):
                    z, facts = self.spec.evaluate_bool(self, cond, pre, pre, env)
                    b.pc.extend(facts)
                    b.assume(z)
                exc = ExcObj(ecls)
                self.apply_sets(b, pre, env, spec.get("sets", {}))
                lo, hi = (beh.effects or {}).get("raise", (0, 0))
                for ncalls in range(lo, hi + 1):
                    b2 = b.fork() if ncalls < hi else b
                    if hi > lo:
                        b2.label("%d call(s)" % ncalls)
                    local = self.local_trace(ncalls, "%s@L%d!" % (name, ln))
                    before = list(b2.pc)
                    saved, b2.trace = b2.trace, local
                    for sx in spec.get("state", []):
                        if INTERNAL_TRACE.search(sx):
                            continue
                        z, facts = self.spec.evaluate_bool(self, sx, b2, pre, dict(env, exc=exc))
                        b2.pc.extend(facts)
                        b2.assume(z)
                    b2.trace = saved
                    if self.feasible(b2):
                        if not broad:
                            # (for "some exception" entries the state clauses also select which representative
                            # class applies, so an infeasible combination is expected there)
                            self.canary(b2, "L%d:%s raises %s" % (ln, name, ename), before)
                        if not c.effect_free:
                            b2.trace.append(("Callee", name, dict(env), "raise:" + ename, local))
                        yield b2, Raised(ecls, exc)
        # normal exit
        if beh.noreturn:
            return
        ok = st
        for cond in beh.returns_when:
            z, facts = self.spec.evaluate_bool(self, cond, pre, pre, env)
            ok.pc.extend(facts)
            ok.assume(z)
        if not self.feasible(ok):
            return
        for ename, spec in beh.raises.items():
            if spec.get("when"):
                z, facts = self.spec.evaluate_bool(self, spec["when"], pre, pre, env)
                ok.pc.extend(facts)
                ok.assume(z3.Not(z))
        self.havoc_modifies(ok, env, beh.modifies, "%s@L%d" % (name, ln))
        if beh.clock:
            self.clock_advance(ok, "%s@L%d" % (name, ln))
        result = None
        if beh.result and beh.result != "none":
            result = self.fresh_of(beh.result, "%s.result@L%d" % (name, ln))
            if isinstance(result, Obj):
                result.allocated = True        # an object-valued result of a callee is a newly created object
            self.type_invariants(ok, [result])
        env2 = dict(env, result=result)
        self.apply_sets(ok, pre, env, beh.sets)
        nrm = (beh.effects or {}).get("normal", 0)
        nlo, nhi = nrm if isinstance(nrm, tuple) else (nrm, nrm)
        for ncalls in range(nlo, nhi + 1):
            ok2 = ok.fork() if ncalls < nhi else ok
            if nhi > nlo:
                ok2.label("%d call(s)" % ncalls)
            before = list(ok2.pc)
            local = self.local_trace(ncalls, "%s@L%d!" % (name, ln))
            saved, ok2.trace = ok2.trace, local
            for cname, (expr, props) in beh.ensures.items():
                if INTERNAL_TRACE.search(expr) or cname.startswith("internal_"):
                    continue          # about the callee's own nested calls / ghosts: an obligation of the callee only
                z, facts = self.spec.evaluate_bool(self, expr, ok2, pre, env2)
                ok2.pc.extend(facts)
                ok2.assume(z)
            ok2.trace = saved
            if nhi == nlo:
                self.canary(ok2, "L%d:%s returns" % (ln, name), before)
            if not c.effect_free:
                ok2.trace.append(("Callee", name, dict(env), result, local))
            yield ok2, result

    def local_trace(self, n, tag):
        """the callee's own Call events as seen from a call site: n events with unknown components, constrained
        only by what the callee's contract says about them"""
        return [("Call", fresh(tag + "fn", Val), fresh(tag + "args", VL), fresh(tag + "res", Val), fresh(tag + "kw", Val))
                for _ in range(n)]

    def havoc_modifies(self, st, env, modifies, tag):
        tmp = State()
        tmp.env = env
        tmp.heap = dict(st.heap)
        # resolve every location against the heap BEFORE anything is havocked (x.f and x.f.g may both be listed)
        keys = []
        for m in modifies:
            for key in sorted(self.resolve_location(tmp, m)):
                if key not in keys:
                    keys.append(key)
        objs = {o.oid: o for o in list(self.live_objs(tmp)) + list(self.live_objs(st)) + list(getattr(self, "_global_objs", {}).values())}
        if "$refcounts" in modifies:
            st.heap[("$netref", "refcount")] = SArr(fresh("refcount~%s" % tag, z3.ArraySort(Val, Int)))
        if "$sysmodules" in modifies:
            st.heap[("$sys", "epoch")] = SInt(fresh("sysmodules-epoch~%s" % tag, Int))     # the set of imported modules may have changed
        for key in keys:
            oid, fld = key
            if fld == "joined":
                st.heap[key] = SBytes(fresh("joined~%s" % tag, Bytes))
            elif fld == "n":
                st.heap[key] = SInt(fresh("n~%s" % tag, Int))
            elif fld == "items" and objs.get(oid) is not None and objs[oid].kind == "vlist":
                st.heap[key] = SVL(fresh("items~%s" % tag, VL))
            elif fld in ("map", "has") and objs.get(oid) is not None and objs[oid].kind == "dict":
                st.heap[key] = SArr(fresh("%s~%s" % (fld, tag), z3.ArraySort(Val, Val if fld == "map" else Bool)))
            elif fld in ("map2", "has2") and objs.get(oid) is not None and objs[oid].kind == "dict":
                st.heap[key] = SArr(fresh("%s~%s" % (fld, tag), z3.ArraySort(Val, z3.ArraySort(Val, Val if fld == "map2" else Bool))))
            else:
                obj = objs.get(oid)
                srt = self.field_sort(obj, fld) if obj is not None else None
                if srt is None:
                    raise CheckerError("cannot havoc %s.%s" % (obj, fld))
                if srt in ("vlist", "dict", "dict:slot", "dict:dict", "joinlist"):
                    continue        # the container object stays; its contents are havocked by their own keys
                st.heap[key] = self.fresh_of(srt, "%s.%s~%s" % (obj.name, fld, tag))


class ops_SymRange(object):
    """range(lo, hi) with symbolic bounds"""

    def __init__(self, lo, hi):
        self.lo = lo
        self.hi = hi
