"""The sidecar contract store: declarative contracts for repository functions, externals
(library models) and class field declarations.  Pure data; all expressions are strings in
Python expression syntax, compiled by the engine's spec evaluator."""


class Behaviour(object):
    def __init__(self, name, ghost=None, requires=(), ensures=None, raises=None, modifies=(), hints=(),
                 split=(), calls=None, result=None, unfold_depth=2, loops=None, assumes=(), native_build=None, init=None, native=None, sets=None, noreturn=False, effects=None, reveal=(), returns_when=(), params=None, clock=False, trusted=False, exit_hints=(), thorough_only=False):
        self.thorough_only = thorough_only          # verified in the thorough tier only (the quick tier lists it as not run)
        self.exit_hints = list(exit_hints)          # expressions (over result) evaluated at a normal exit only for their unfoldings / lemma instances
        self.trusted = trusted                      # this behaviour is ASSUMED (an interface view), not verified against the body
        self.clock = clock                          # the function reads the clock / lets time pass: `now` advances over a call
        self.params = dict(params or {})            # per-behaviour parameter sorts (override the contract's)
        self.returns_when = list(returns_when)      # conditions (on the entry state) under which a normal return is possible at all
        self.reveal = list(reveal)                  # opaque spec functions whose definition this proof needs
        self.effects = effects                      # {'normal': n, 'raise': (lo, hi)}: number of direct Call events per exit
        self.noreturn = noreturn                    # the function never returns normally (always raises)
        self.sets = dict(sets or {})                # heap location -> expression: exact new value on normal exit (reference-valued fields)
        self.init = dict(init or {})                # heap location -> expression: initial value overriding the declared field sort
        self.native = native                        # name of a native harness (spec/harness.py) for replay / bounded runs
        self.native_build = native_build            # expression building the real arguments from ghost values (native runs)
        self.name = name
        self.ghost = dict(ghost or {})              # ghost name -> sort
        self.requires = list(requires)
        self.ensures = dict(ensures or {})          # clause name -> (expr, [property ids])
        self.raises = dict(raises or {})            # exc class name -> {"when": expr|None, "state": [expr], "props": [...]}
        self.modifies = list(modifies)
        self.hints = list(hints)                    # expressions evaluated only for their unfoldings / lemma instances
        self.split = list(split)                    # case-split conditions (exhaustiveness is itself an obligation)
        self.calls = dict(calls or {})              # "callee#k" -> {"ghost": {name: expr}, "behaviour": name}
        self.result = result                        # result sort
        self.unfold_depth = unfold_depth
        self.loops = loops                          # behaviour-specific loop contracts (override)
        self.assumes = list(assumes)                # facts assumed about parameters (reported as assumptions)


class Contract(object):
    def __init__(self, target, params=None, behaviours=None, loops=None, inline=False, result=None,
                 fields=None, locals=None, note="", tier=1, trusted=False, dispatch=None, effect_free=False, abstract_calls=None, free=None, self_methods=None, self_name="self", solver_pruning=False, append_hints=None, getattr_assume=None, merge_iteration=False, dynamic_errors=False, getattr_models=None, **default_behaviour):
        self.dynamic_errors = dynamic_errors        # operands of the wrong dynamic type raise (TypeError) / run user code (Op event) instead of being excluded by an obligation
        self.merge_iteration = merge_iteration      # iterate a dynamic value on ONE path (items defined by cases) instead of one path per kind
        self.getattr_assume = dict(getattr_assume or {})   # attribute name -> (clause over obj/result, reason): an assumed fact about reading that attribute
        self.append_hints = list(append_hints or [])    # lemma instances used at every list.append (scope: acc = the list's items, x = the value)
        self.solver_pruning = solver_pruning
        self.self_methods = dict(self_methods or {})  # {method name: reason} - `self.<name>` resolved statically to the class's own function
        self.self_name = self_name
        self.free = dict(free or {})                # free variables of a nested function (closure cells): name -> sort
        # call expressions (matched on the source text of the callee expression) replaced by a named library model:
        # {'self._HANDLERS[handler]': 'handler_run', 'logger.debug': 'log'}
        self.abstract_calls = dict(abstract_calls or {})
        self.getattr_models = dict(getattr_models or {})     # source text of an attribute read (a property) -> library model
        self.effect_free = effect_free              # no ghost event on any exit (proved); call sites then record no event
        self.dispatch = list(dispatch or [])        # [(condition expr | None, behaviour name)]: behaviour used at a call site
        self.target = target                        # "rpyc/core/brine.py::_dump_bytes"
        self.params = dict(params or {})            # name -> sort (in order of the signature)
        self.loops = dict(loops or {})              # loop ordinal -> {"invariant": [...], "havoc": {...}, "rest": name, "hints": [...]}
        self.inline = inline
        self.result = result
        self.locals = dict(locals or {})
        self.note = note
        self.tier = tier
        self.trusted = trusted                      # contract assumed, body not verified (listed in evidence)
        self.behaviours = {}
        if behaviours:
            for n, b in behaviours.items():
                b = dict(b)
                b.setdefault("result", result)
                self.behaviours[n] = Behaviour(n, **b)
        if default_behaviour or not behaviours:
            default_behaviour.setdefault("result", result)
            self.behaviours["default"] = Behaviour("default", **default_behaviour)

    @property
    def file(self):
        return self.target.split("::")[0]

    @property
    def qualname(self):
        return self.target.split("::")[1]


class External(object):
    """library model: the contract of something outside the repository (trusted)"""

    def __init__(self, name, params=None, outcomes=(), result=None, note="", ghost=None, requires=(), defaults=None):
        self.defaults = dict(defaults or {})
        self.name = name
        self.params = dict(params or {})
        self.result = result
        self.requires = list(requires)
        # outcome: {"kind": "ok"|"raise", "exc": classname, "assume": [expr], "modifies": [...], "label": str}
        self.outcomes = list(outcomes)
        self.note = note
        self.ghost = dict(ghost or {})


class Store(object):
    def __init__(self):
        self.contracts = {}
        self.externals = {}
        self.fields = {}          # class name -> {field: sort}
        self.class_invariants = {}
        self.lemmas = {}
        self.assumptions = []     # named trusted items used by this store
        self.compositions = {}    # name -> (function(K) -> [(id, hyps, goal)], [property ids])

    def contract(self, target, **kw):
        c = Contract(target, **kw)
        self.contracts[target] = c
        return c

    def external(self, name, **kw):
        e = External(name, **kw)
        self.externals[name] = e
        return e

    def composition(self, name, props):
        def deco(fn):
            self.compositions[name] = (fn, list(props))
            return fn
        return deco

    def declare_fields(self, clsname, **fields):
        cur = self.fields.setdefault(clsname, {})
        for f, srt in fields.items():
            if f in cur and cur[f] != srt:
                raise ValueError("field %s.%s declared %r, redeclared %r" % (clsname, f, cur[f], srt))
            cur[f] = srt

    def find(self, relfile, qualname):
        return self.contracts.get("%s::%s" % (relfile, qualname))
