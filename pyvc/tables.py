"""The tag table `T` handed to the spec functions: reflected from the live module (C04) or
read from the frozen 5.x reference (C19)."""
import json
import os

NAMES = ["NONE", "EMPTY_STR", "EMPTY_TUPLE", "TRUE", "FALSE", "NOT_IMPLEMENTED", "ELLIPSIS", "UNICODE", "STR1", "STR2",
         "STR3", "STR4", "STR_L1", "STR_L4", "TUP1", "TUP2", "TUP3", "TUP4", "TUP_L1", "TUP_L4", "INT_L1", "INT_L4",
         "FLOAT", "SLICE", "FSET", "COMPLEX"]


class Table(object):
    def __repr__(self):
        return "Table(%s)" % self.origin


def from_module(brine):
    T = Table()
    T.origin = "reflected from rpyc.core.brine"
    for n in NAMES:
        setattr(T, n, getattr(brine, "TAG_" + n))
    keys = sorted(brine.IMM_INTS)
    contiguous = keys == list(range(keys[0], keys[-1] + 1))
    offs = {brine.IMM_INTS[k][0] - k for k in keys if len(brine.IMM_INTS[k]) == 1}
    if not contiguous or len(offs) != 1 or any(len(brine.IMM_INTS[k]) != 1 for k in keys):
        raise ValueError("IMM_INTS is not a contiguous range with a constant offset: cannot summarise it")
    T.IMM_LO, T.IMM_HI, T.IMM_OFF = keys[0], keys[-1] + 1, offs.pop()
    return T


def from_reference(path=None):
    path = path or os.path.join(os.path.dirname(os.path.dirname(os.path.abspath(__file__))), "spec", "wire_5x.json")
    ref = json.load(open(path))
    T = Table()
    T.origin = "frozen reference spec/wire_5x.json"
    for n in NAMES:
        setattr(T, n, bytes([ref["tags"][n]]))
    T.IMM_LO, T.IMM_HI, T.IMM_OFF = ref["imm_lo"], ref["imm_hi"], ref["imm_off"]
    return T


class Consts(object):
    def __repr__(self):
        return "Consts(%s)" % self.origin


def frame_consts_from_module(channel):
    C = Consts()
    C.origin = "reflected from rpyc.core.channel.Channel"
    C.THRESHOLD = channel.Channel.COMPRESSION_THRESHOLD
    C.LEVEL = channel.Channel.COMPRESSION_LEVEL
    C.FLUSHER = channel.Channel.FLUSHER
    return C


def frame_consts_from_reference(channel, path=None):
    path = path or os.path.join(os.path.dirname(os.path.dirname(os.path.abspath(__file__))), "spec", "wire_5x.json")
    ref = json.load(open(path))
    C = Consts()
    C.origin = "frozen reference spec/wire_5x.json"
    C.THRESHOLD = ref["frame"]["compression_threshold"]
    C.LEVEL = channel.Channel.COMPRESSION_LEVEL      # not part of the format
    C.FLUSHER = bytes(ref["frame"]["flusher"])
    return C
