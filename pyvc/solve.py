"""Back ends: each obligation (hyps, goal) becomes the SMT-LIB query  hyps /\ not goal ;
`unsat` discharges it.  Solvers run as child processes with a hard kill (never trusting a
solver's own timeout).  Primary: z3 5.1 (z3-new); on unknown/timeout: cvc5, then z3 4.8.12."""
import hashlib
import os
import subprocess
import time
import z3
from concurrent.futures import ThreadPoolExecutor

SOLVERS = {
    "z3-5.1": lambda f, t: ["z3-new", "-T:%d" % t, f],
    "cvc5-1.0.3": lambda f, t: ["/usr/bin/cvc5", "--strings-exp", "--tlimit=%d" % (t * 1000), f],
    "z3-4.8.12": lambda f, t: ["/usr/bin/z3", "-T:%d" % t, f],
}


def to_smt2(hyps, goal):
    s = z3.Solver()
    for h in hyps:
        s.add(h)
    s.add(z3.Not(goal))
    return "(set-logic ALL)\n" + s.to_smt2()


def purify(hyps, goal):
    """sound weakening used when the direct query is too hard: every application of an uninterpreted function
    with a sequence result is replaced by a fresh constant (same term -> same constant).  Only congruence is
    lost, so `unsat` of the purified query implies `unsat` of the original."""
    seq_apps = {}

    def collect(e):
        if z3.is_quantifier(e):
            collect(e.body())
            return
        if not z3.is_app(e):
            return
        if e.decl().kind() == z3.Z3_OP_UNINTERPRETED and e.num_args() > 0 and z3.is_seq(e):
            k = e.get_id()
            if k not in seq_apps:
                seq_apps[k] = (e, z3.Const("purif!%d" % len(seq_apps), e.sort()))
            return
        for ch in e.children():
            collect(ch)
    for h in list(hyps) + [goal]:
        collect(h)
    pairs = list(seq_apps.values())
    if not pairs:
        return None
    return [z3.substitute(h, *pairs) for h in hyps], z3.substitute(goal, *pairs)


def run_solver(name, path, timeout):
    t0 = time.time()
    try:
        p = subprocess.run(SOLVERS[name](path, timeout), capture_output=True, text=True, timeout=timeout + 5)
        out = (p.stdout or "").strip().splitlines()
        ans = out[0].strip() if out else "error"
        if ans not in ("sat", "unsat", "unknown", "timeout"):
            ans = "error:" + " ".join(out[:2])[:200] + (p.stderr or "")[:200]
    except subprocess.TimeoutExpired:
        ans = "timeout"
    return ans, time.time() - t0


def _parse(out):
    lines = (out or "").strip().splitlines()
    ans = lines[0].strip() if lines else "error"
    if ans not in ("sat", "unsat", "unknown", "timeout"):
        ans = "error:" + " ".join(lines[:2])[:200]
    return ans


def race(path, names, timeout):
    """run several solvers on the same file concurrently; the first definitive answer wins and the others
    are killed.  Returns {solver: (answer, seconds)} for the solvers that answered (or timed out)."""
    t0 = time.time()
    procs = {n: subprocess.Popen(SOLVERS[n](path, timeout), stdout=subprocess.PIPE, stderr=subprocess.PIPE, text=True)
             for n in names}
    times = {}
    pending = dict(procs)
    winner = None
    while pending and time.time() - t0 < timeout + 5:
        for n, p in list(pending.items()):
            if p.poll() is not None:
                out, err = p.communicate()
                ans = _parse(out)
                times[n] = (ans, round(time.time() - t0, 3))
                del pending[n]
                if ans in ("sat", "unsat") and winner is None:
                    winner = n
        if winner:
            break
        time.sleep(0.01)
    for n, p in pending.items():
        p.kill()
        p.communicate()
        if not winner:
            times[n] = ("timeout", round(time.time() - t0, 3))
    return times


def decide(smt, outdir, timeout=20, order=("z3-5.1", "cvc5-1.0.3", "z3-4.8.12"), all_solvers=False):
    """returns dict(verdict=unsat|sat|unknown|disagree, by=solver, times={solver: (answer, seconds)})
    quick: z3 5.1 alone for a short slice (most obligations take milliseconds), then z3 5.1 and cvc5 raced,
    then z3 4.8.12; thorough (all_solvers): every solver answers every obligation and they must agree."""
    h = hashlib.sha1(smt.encode()).hexdigest()[:16]
    path = os.path.join(outdir, "%s.smt2" % h)
    with open(path, "w") as f:
        f.write(smt)
    times = {}
    verdict, by = "unknown", None
    if all_solvers:
        for name in order:
            ans, dt = run_solver(name, path, timeout)
            times[name] = (ans, round(dt, 3))
            if ans in ("sat", "unsat"):
                if verdict == "unknown":
                    verdict, by = ans, name
                elif verdict != ans:
                    verdict, by = "disagree", name
    else:
        first = order[0]
        ans, dt = run_solver(first, path, min(2, timeout))
        times[first] = (ans, round(dt, 3))
        if ans in ("sat", "unsat"):
            verdict, by = ans, first
        elif len(order) > 1:
            rt = race(path, [n for n in order[:2]], timeout)
            for n, (a, d) in rt.items():
                times[n + ("+" if n in times else "")] = (a, d)
                if a in ("sat", "unsat") and verdict == "unknown":
                    verdict, by = a, n
            if verdict == "unknown" and len(order) > 2:
                ans, dt = run_solver(order[2], path, timeout)
                times[order[2]] = (ans, round(dt, 3))
                if ans in ("sat", "unsat"):
                    verdict, by = ans, order[2]
    if verdict == "unsat":
        try:
            os.unlink(path)
        except OSError:
            pass
    return {"verdict": verdict, "by": by, "times": times, "file": path}


def race_files(jobs, timeout):
    """jobs: [(label, solver, path, accept)] run concurrently; accept = set of answers that decide the
    obligation for that job (a purified query only counts when it says unsat).  First accepted answer wins."""
    t0 = time.time()
    procs = {}
    for label, solver, path, accept in jobs:
        procs[label] = (subprocess.Popen(SOLVERS[solver](path, timeout), stdout=subprocess.PIPE, stderr=subprocess.PIPE,
                                         text=True), solver, accept)
    times, winner = {}, None
    pending = dict(procs)
    while pending and time.time() - t0 < timeout + 5 and winner is None:
        for label, (p, solver, accept) in list(pending.items()):
            if p.poll() is not None:
                out, err = p.communicate()
                ans = _parse(out)
                times[label] = (ans, round(time.time() - t0, 3))
                del pending[label]
                if ans in accept and winner is None:
                    winner = (label, solver, ans)
        if winner is None:
            time.sleep(0.01)
    for label, (p, solver, accept) in pending.items():
        p.kill()
        p.communicate()
        if winner is None:
            times[label] = ("timeout", round(time.time() - t0, 3))
    return winner, times


def discharge_all(obligs, outdir, timeout=20, jobs=16, all_solvers=False, order=None):
    """phase 1: z3 5.1 alone, 2 s (most obligations take milliseconds).  phase 2, for what is left: z3 5.1 and
    cvc5 on the query raced with z3 5.1 / cvc5 on its purified weakening; then z3 4.8.12.
    thorough (all_solvers): every solver answers every obligation and they must agree."""
    os.makedirs(outdir, exist_ok=True)
    # obligations raised at the END of one path share its final path condition (hypotheses differ only by definitional facts):
    # they are first tried as ONE query (all hypotheses, conjunction of the goals); `unsat` discharges every member, any
    # other answer sends the members through the normal pipeline one by one
    merged_done = {}
    if not all_solvers and order is None:
        groups = {}
        for i, o in enumerate(obligs):
            g = o.meta.get("group") if isinstance(getattr(o, "meta", None), dict) else None
            if g is not None:
                groups.setdefault(g, []).append(i)
        big = [idx for idx in groups.values() if len(idx) > 1]

        jobs_g = []
        for idx in big:                       # z3's API is not thread-safe: the texts are built here, only solvers run in threads
            hyps, seen = [], set()
            for i in idx:
                for h in obligs[i].hyps:
                    k = h.get_id() if hasattr(h, "get_id") else id(h)
                    if k not in seen:
                        seen.add(k)
                        hyps.append(h)
            goal = z3.And([obligs[i].goal if not isinstance(obligs[i].goal, bool) else z3.BoolVal(obligs[i].goal) for i in idx])
            s_ = to_smt2(hyps, goal)
            path = os.path.join(outdir, "%s.group.smt2" % hashlib.sha1(s_.encode()).hexdigest()[:16])
            with open(path, "w") as f:
                f.write(s_)
            jobs_g.append((idx, path))

        def try_group(job):
            idx, path = job
            ans, dt = run_solver("z3-5.1", path, 3)
            try:
                os.unlink(path)
            except OSError:
                pass
            return idx, ans, dt
        with ThreadPoolExecutor(max_workers=jobs) as ex:
            for idx, ans, dt in ex.map(try_group, jobs_g):
                if ans == "unsat":
                    for i in idx:
                        merged_done[i] = {"verdict": "unsat", "by": "z3-5.1", "times": {"z3-5.1": ("unsat", round(dt / len(idx), 3))},
                                          "file": None, "merged_with": len(idx)}
    if merged_done:
        rest_idx = [i for i in range(len(obligs)) if i not in merged_done]
        rest = _discharge_plain([obligs[i] for i in rest_idx], outdir, timeout, jobs)
        out = [None] * len(obligs)
        for i, r in merged_done.items():
            out[i] = r
        for i, r in zip(rest_idx, rest):
            out[i] = r
        return out
    return _discharge_plain(obligs, outdir, timeout, jobs, all_solvers=all_solvers, order=order)


def _discharge_plain(obligs, outdir, timeout=20, jobs=16, all_solvers=False, order=None):
    os.makedirs(outdir, exist_ok=True)
    smts = [to_smt2(o.hyps, o.goal) for o in obligs]
    uniq = {}
    for s in smts:
        uniq.setdefault(s, None)
    keys = list(uniq)
    if all_solvers or order is not None:
        with ThreadPoolExecutor(max_workers=jobs) as ex:
            kw = {"order": order} if order else {}
            for k, r in zip(keys, ex.map(lambda s: decide(s, outdir, timeout, all_solvers=all_solvers, **kw), keys)):
                uniq[k] = r
        if all_solvers:
            # what no solver decided directly: the purified weakening (sound: only `unsat` is accepted), as in the quick tier
            first = {}
            for i, s in enumerate(smts):
                if uniq[s]["verdict"] == "unknown" and s not in first:
                    first[s] = i
            work = []
            for s, i in first.items():
                p = purify(obligs[i].hyps, obligs[i].goal)
                if p:
                    ps = to_smt2(p[0], p[1])
                    ppath = os.path.join(outdir, "%s.purified.smt2" % hashlib.sha1(ps.encode()).hexdigest()[:16])
                    with open(ppath, "w") as f:
                        f.write(ps)
                    work.append((s, ppath))

            def pur(w):
                s, ppath = w
                winner, times = race_files([("z3-5.1 (purified)", "z3-5.1", ppath, {"unsat"}),
                                            ("cvc5-1.0.3 (purified)", "cvc5-1.0.3", ppath, {"unsat"})], timeout)
                return s, winner, times
            with ThreadPoolExecutor(max_workers=max(1, jobs // 2)) as ex:
                for s, winner, times in ex.map(pur, work):
                    r = dict(uniq[s])
                    r["times"] = dict(r["times"], **times)
                    if winner:
                        r["verdict"], r["by"] = "unsat", winner[0]
                    uniq[s] = r
        return [uniq[s] for s in smts]

    def phase1(s):
        h = hashlib.sha1(s.encode()).hexdigest()[:16]
        path = os.path.join(outdir, "%s.smt2" % h)
        with open(path, "w") as f:
            f.write(s)
        ans, dt = run_solver("z3-5.1", path, 2)
        v = ans if ans in ("sat", "unsat") else "unknown"
        if v == "unsat":
            try:
                os.unlink(path)
            except OSError:
                pass
        return {"verdict": v, "by": "z3-5.1" if v != "unknown" else None, "times": {"z3-5.1": (ans, round(dt, 3))}, "file": path}
    with ThreadPoolExecutor(max_workers=jobs) as ex:
        for k, r in zip(keys, ex.map(phase1, keys)):
            uniq[k] = r
    # phase 2
    first = {}
    for i, s in enumerate(smts):
        if uniq[s]["verdict"] == "unknown" and s not in first:
            first[s] = i
    work = []
    for s, i in first.items():
        p = purify(obligs[i].hyps, obligs[i].goal)
        ppath = None
        if p:
            ps = to_smt2(p[0], p[1])
            ppath = os.path.join(outdir, "%s.purified.smt2" % hashlib.sha1(ps.encode()).hexdigest()[:16])
            with open(ppath, "w") as f:
                f.write(ps)
        work.append((s, uniq[s]["file"], ppath))

    def phase2(w):
        s, path, ppath = w
        js = [("z3-5.1+", "z3-5.1", path, {"sat", "unsat"}), ("cvc5-1.0.3", "cvc5-1.0.3", path, {"sat", "unsat"})]
        if ppath:
            js += [("z3-5.1 (purified)", "z3-5.1", ppath, {"unsat"}), ("cvc5-1.0.3 (purified)", "cvc5-1.0.3", ppath, {"unsat"})]
        winner, times = race_files(js, timeout)
        r = dict(uniq[s])
        r["times"] = dict(r["times"], **times)
        if winner:
            r["verdict"], r["by"] = winner[2], winner[0]
        else:
            ans, dt = run_solver("z3-4.8.12", path, timeout)
            r["times"]["z3-4.8.12"] = (ans, round(dt, 3))
            if ans in ("sat", "unsat"):
                r["verdict"], r["by"] = ans, "z3-4.8.12"
        if r["verdict"] == "unsat":
            for f in (path, ppath):
                try:
                    if f:
                        os.unlink(f)
                except OSError:
                    pass
        return s, r
    with ThreadPoolExecutor(max_workers=max(1, jobs // 4)) as ex:
        for s, r in ex.map(phase2, work):
            uniq[s] = r
    return [uniq[s] for s in smts]


def get_model(smt_path, names, timeout=10):
    """ask z3 (child process) for a model of a sat query; returns {name: text} or None"""
    script = r"""
import sys, json, z3
s = z3.Solver(); s.set("timeout", %d)
s.from_file(sys.argv[1])
r = s.check()
out = {}
if r == z3.sat:
    m = s.model()
    for d in m.decls():
        try:
            out[d.name()] = str(m[d])[:400]
        except Exception:
            pass
print(json.dumps({"result": str(r), "model": out}))
""" % (timeout * 1000)
    try:
        p = subprocess.run(["python3-vt", "-c", script, smt_path], capture_output=True, text=True, timeout=timeout + 10)
        import json
        return json.loads(p.stdout.strip().splitlines()[-1])
    except Exception as e:
        return {"result": "error", "model": {}, "error": str(e)[:200]}


def check_canaries(canaries, outdir, timeout=3, jobs=16):
    """a canary (path condition after an assumption) must be satisfiable unless the path condition before
    the assumption was already unsatisfiable.  Returns the list of contradictory ones (id, detail)."""
    import z3 as _z3
    os.makedirs(outdir, exist_ok=True)
    res = discharge_all(canaries, outdir, timeout=timeout, jobs=jobs, order=("z3-5.1",))
    suspects = [(c, r) for c, r in zip(canaries, res) if r["verdict"] == "unsat"]
    if not suspects:
        return [], len(canaries)
    from .engine import Obligation
    befores = [Obligation(c.id + "/before", c.meta["before"], _z3.BoolVal(False)) for c, _ in suspects]
    res2 = discharge_all(befores, outdir, timeout=timeout, jobs=jobs)
    bad = []
    for (c, r), r2 in zip(suspects, res2):
        if r2["verdict"] != "unsat":
            bad.append((c.id, "path condition becomes unsatisfiable by the assumption (before: %s)" % r2["verdict"]))
    return bad, len(canaries)
