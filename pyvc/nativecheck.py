"""Native (CPython) evaluation of the SAME contracts on the REAL functions.

Runs under the interpreter the repository is installed in (/venv/bin/python).  Uses:
  * replay: re-run a recorded failing input and re-evaluate the violated clause;
  * counterexample search for a failed obligation (boundary-directed inputs, DESIGN 2.9);
  * vacuity / cover guard: every behaviour's `requires` must be satisfied by some input;
  * bounded stand-in for functions outside the verifier's subset (labelled bounded);
  * engine sanity: on a tree where every obligation was discharged, no native failure may exist.
It never produces a proof.  No z3 here.
"""
import ast
import copy
import importlib
import io
import itertools
import json
import os
import random
import struct
import sys
import traceback

HERE = os.path.dirname(os.path.dirname(os.path.abspath(__file__)))
import re
TRACE_CLAUSE = re.compile(r"\b(n_events|n_calls|call_fn|call_args|call_result|call_kwargs|n_callees|callee_arg|callee_result|"
                          r"all_calls_from_callee|all_getattr_on|n_requests|request_kind|request_conn|request_args|request_result|"
                          r"n_ops|op_name|op_target|op_args|op_result|n_local|n_ev|ev_arg)\b")


# ---------------------------------------------------------------------------------------------
# candidate values (boundary-directed)
# ---------------------------------------------------------------------------------------------
def f64(bits):
    return struct.unpack("!d", struct.pack("!Q", bits))[0]


FLOATS = [0.0, -0.0, 1.5, -2.25, float("inf"), float("-inf"), float("nan"), f64(0x7ff800000000beef),
          f64(0xfff0000000000001), 5e-324, 1.7976931348623157e308]
INTS = [0, 1, -1, -0x31, -0x30, -0x2f, 0x9e, 0x9f, 0xa0, 0xa1, 255, 256, 2 ** 31, 2 ** 32, 2 ** 64, -2 ** 64,
        10 ** 254, 10 ** 255 - 1, 10 ** 255, -10 ** 254, 10 ** 256, 10 ** 300]
BYTES = [b"", b"a", b"ab", b"abc", b"abcd", b"abcde", b"\x00" * 254, b"\xff" * 255, b"z" * 256, b"q" * 257,
         bytes(range(256)) * 3, b"x" * 65536]
STRS = ["", "a", "ab", "abc", "abcd", "abcde", "é", "\U0001f600", "\ud800", "a\udfffb", "x" * 254, "y" * 255,
        "z" * 256, "é" * 128, "w" * 70000]


class IntSub(int):
    pass


class StrSub(str):
    pass


class TupSub(tuple):
    pass


def nonplain():
    import enum, collections

    class Color(enum.IntEnum):
        RED = 1
    NT = collections.namedtuple("NT", "a b")
    return [[1], {}, {1}, bytearray(b"a"), object(), IntSub(3), StrSub("s"), TupSub((1,)), Color.RED, NT(1, 2), len,
            int, ([],), (1, [2]), (1, (2, (3, [4]))), slice([], 1, 2), (IntSub(1),), memoryview(b"a"), range(3)]


def plain_values(rng, big=True):
    base = [None, NotImplemented, Ellipsis, True, False]
    base += INTS + FLOATS
    base += [complex(a, b) for a in (0.0, -0.0, 1.0, float("inf"), float("nan")) for b in (0.0, -0.0, 2.0, float("-inf"), f64(0x7ff800000000beef))]
    base += BYTES + STRS
    tuples = [(), (1,), (1, 2), (1, 2, 3), (1, 2, 3, 4), (1, 2, 3, 4, 5), (None,) * 255, (0,) * 256, (b"", "") * 129,
              ((),), ((1, (2, (3,))),), (True, 1, 1.0, b"1", "1"), (-0.0, 0.0), (frozenset([1, 2]), slice(1, 2, 3))]
    fsets = [frozenset(), frozenset([1]), frozenset([1, b"a", "a", None]), frozenset([(1, 2), frozenset([3])]),
             frozenset(range(300)), frozenset([0.0]), frozenset(["\ud800"])]
    slices = [slice(None), slice(1, 2, 3), slice((1, 2), "a", None), slice(slice(1), b"x", -0.0), slice(10 ** 300, None, True)]
    return base + tuples + fsets + slices


def all_values(rng):
    return plain_values(rng) + nonplain()


def gen_bytes_streams(rng, enc, T):
    """arbitrary byte strings for the decoder: valid encodings, truncations, mutations, random"""
    out = [b"", b"\x00", b"\xff", bytes([0x1c]), bytes([0x07]), bytes([0x09])]
    goods = []
    for v in plain_values(rng):
        try:
            goods.append(enc(v))
        except Exception:
            pass
    goods = [g for g in goods if len(g) < 5000]
    out += goods
    for g in goods:
        if len(g) > 1:
            out.append(g[:-1])
            out.append(g[:len(g) // 2])
            k = rng.randrange(len(g))
            out.append(g[:k] + bytes([rng.randrange(256)]) + g[k + 1:])
    for _ in range(300):
        out.append(bytes(rng.randrange(256) for _ in range(rng.randrange(1, 40))))
    # every tag byte followed by little / a lot of data
    for t in range(256):
        out.append(bytes([t]))
        out.append(bytes([t]) + b"\x05abcdefgh" * 3)
        out.append(bytes([t, 0x1a, 0x12, 0x19, 0x12, 0x51, 0x52, 0x53, 0x51, 0x52]))
    return out


# ---------------------------------------------------------------------------------------------
# native spec environment
# ---------------------------------------------------------------------------------------------
class BytesIOView(object):
    def __init__(self, bio):
        self.bio = bio

    @property
    def unread(self):
        return self.bio.getvalue()[self.bio.tell():]


class Env(object):
    def __init__(self, job):
        sys.path.insert(0, job["repo"])
        sys.path.insert(0, HERE)
        self.job = job
        self.rng = random.Random(job.get("seed", 0))
        from pyvc import store as store_mod, tables
        self.store = store_mod.Store()
        for m in job["contracts"]:
            importlib.import_module("contracts." + m).register(self.store)
        self.ns = {}
        import spec.native as native
        self.ns.update({k: v for k, v in vars(native).items() if not k.startswith("_")})
        import rpyc.core.brine as brine
        T = tables.from_module(brine) if job.get("table", "module") == "module" else tables.from_reference()
        for m in job["spec_modules"]:
            mod = importlib.import_module("spec." + m)
            if hasattr(mod, "T"):
                mod.T = T
            self.ns.update({k: v for k, v in vars(mod).items() if callable(v) and not k.startswith("_")})
        self.ns["T"] = T
        import rpyc.core.channel as channel_mod, rpyc.core.stream as stream_mod, errno as errno_mod
        Cc = tables.frame_consts_from_module(channel_mod) if job.get("table", "module") == "module" else \
            tables.frame_consts_from_reference(channel_mod)
        for m in job["spec_modules"]:
            mod = importlib.import_module("spec." + m)
            if hasattr(mod, "C"):
                mod.C = Cc
            self.ns.update({k: v for k, v in vars(mod).items() if callable(v) and not k.startswith("_")})
        self.ns["C"] = Cc
        self.ns["ClosedFile"] = stream_mod.ClosedFile
        self.ns["errno"] = errno_mod
        import spec.harness as harness
        self.harness = harness
        self.ns["mkchannel"] = harness.mkchannel
        self.ns["join"] = lambda l: b"".join(l)
        self.ns["same"] = native.same_bits
        self.ns["bytesio"] = io.BytesIO
        self.ns["mkbytes"] = lambda b: b
        self.ns["mkstr"] = lambda s: s
        self.ns["len"] = len

    def locate(self, target):
        relfile, qual = target.split("::")
        modname = relfile[:-3].replace("/", ".")
        if modname.endswith(".__init__"):
            modname = modname[:-9]
        mod = importlib.import_module(modname)
        obj = mod
        for p in qual.split("."):
            obj = getattr(obj, p)
        return obj, mod

    # -- expression evaluation with old() ------------------------------------------------------
    def split_old(self, expr):
        tree = ast.parse(expr.strip(), mode="eval")
        olds = []

        class R(ast.NodeTransformer):
            def visit_Call(self, n):
                if isinstance(n.func, ast.Name) and n.func.id == "old":
                    olds.append(ast.Expression(body=n.args[0]))
                    return ast.copy_location(ast.Name(id="__old%d" % (len(olds) - 1), ctx=ast.Load()), n)
                return self.generic_visit(n)
        tree = R().visit(tree)
        ast.fix_missing_locations(tree)
        for o in olds:
            ast.fix_missing_locations(o)
        return compile(tree, "<spec>", "eval"), [compile(o, "<old>", "eval") for o in olds]

    def ev(self, code, scope, mod):
        g = dict(vars(mod)) if mod is not None else {}
        g.update(self.ns)
        g.update(scope)
        return eval(code, g)


def adapt(sort, value):
    """(argument passed to the real function, object visible to spec expressions)"""
    if callable(value) and getattr(value, "__name__", "") == "<lambda>":
        value = value()          # factory of a fresh stateful object
    if sort == "obj:BytesIO":
        bio = io.BytesIO(value) if isinstance(value, (bytes, bytearray)) else value
        return bio, BytesIOView(bio)
    return value, value


def candidates(env, sort, pname, contract):
    rng = env.rng
    if contract is not None:
        special = env.harness.candidates_for(contract.target, pname, sort, rng)
        if special is not None:
            return special
    if pname == "count" and sort == "int":
        return [0, 1, 5, 255, 63999, 64000, 64001, 100000, -1]
    if pname == "data" and sort == "bytes" and contract is not None and "PipeStream" in contract.target:
        return [p for p in env.harness.payloads(rng) if len(p) <= 3001]      # stay below the smallest OS pipe capacity
    if pname == "data" and sort == "bytes" and contract is not None and ("stream.py" in contract.target or "channel.py" in contract.target):
        return env.harness.payloads(rng)
    if sort == "val" or sort == "any":
        return all_values(rng)
    if sort == "int":
        return INTS
    if sort == "bool":
        return [True, False]
    if sort == "bytes":
        return BYTES
    if sort == "str":
        return STRS
    if sort == "f64":
        return FLOATS
    if sort == "complex":
        return [v for v in plain_values(rng) if type(v) is complex]
    if sort == "vl":
        return [v for v in all_values(rng) if type(v) is tuple]
    if sort == "fset":
        return [v for v in all_values(rng) if type(v) is frozenset] + [frozenset([1, (2, 3)])]
    if sort == "slice":
        return [v for v in all_values(rng) if type(v) is slice]
    if sort == "joinlist":
        return [[], [b"pre", b"fix"]]
    if sort == "obj:BytesIO":
        return gen_bytes_streams(rng, env.ns["enc"], env.ns["T"])
    if sort == "obj:SocketStream":
        return env.harness.socketstreams(rng)
    if sort == "obj:PipeStream":
        return env.harness.pipestreams(rng)
    if sort == "obj:Channel":
        return env.harness.channels(rng)
    if pname == "count":
        return [0, 1, 5, 255, 63999, 64000, 64001, 100000, -1]
    if pname == "data" and sort == "bytes":
        return env.harness.payloads(rng)
    raise KeyError("no native candidates for sort %s" % sort)


def snapshot(v):
    """old(...) values: mutable plain containers are copied, objects keep their identity"""
    if isinstance(v, (list, dict, set, bytearray)):
        return copy.deepcopy(v)
    return v


def short(v, n=300):
    r = repr(v)
    return r if len(r) <= n else r[:n] + "...<%d chars>" % len(r)


def exc_allowed(env, beh, mod, e):
    for name, spec in beh.raises.items():
        if "." in name:
            m, n = name.rsplit(".", 1)
            cls = getattr(importlib.import_module(m), n)
        else:
            import builtins
            cls = getattr(mod, name, None) or getattr(builtins, name)
        if isinstance(e, cls):
            return name, spec
    return None, None


def run_case(env, contract, beh, func, mod, assignment, ghost):
    """returns None if requires is false, else list of failures (empty = ok)"""
    args, view = {}, {}
    for p, sort in contract.params.items():
        a, v = adapt(sort, copy.deepcopy(assignment[p]) if sort == "joinlist" else assignment[p])
        args[p], view[p] = a, v
    scope = dict(view)
    scope.update(ghost)
    for r in beh.requires:
        code, olds = env.split_old(r)
        try:
            if not env.ev(code, scope, mod):
                return None
        except Exception:
            return None
    checks = []
    for cname, (expr, props) in beh.ensures.items():
        if env.job.get("property") and env.job["property"] not in props:
            continue          # clause needed by other properties only: checked under their checks
        if TRACE_CLAUSE.search(expr):
            continue          # about ghost events: not observable natively without instrumentation
        code, olds = env.split_old(expr)
        oldvals = {"__old%d" % i: snapshot(env.ev(o, scope, mod)) for i, o in enumerate(olds)}
        checks.append((cname, expr, code, oldvals))
    only = {}
    for ename, spec in beh.raises.items():
        if spec.get("only_when"):
            code, _ = env.split_old(spec["only_when"])
            try:
                only[ename] = env.ev(code, scope, mod)
            except Exception as e:
                only[ename] = "error evaluating: %r" % (e,)
    fails = []
    try:
        result = func(*[args[p] for p in contract.params])
    except RecursionError:
        return []
    except BaseException as e:
        name, spec = exc_allowed(env, beh, mod, e)
        if name is None:
            fails.append({"clause": "raises", "observed": "escaped %s: %s" % (type(e).__name__, str(e)[:200]),
                          "expected": "only %s may escape" % (sorted(beh.raises) or "nothing")})
        elif spec.get("only_when") and only.get(name) is not True:
            fails.append({"clause": "raises:%s.only_when" % name, "observed": "%s escaped although `%s` is %r" % (
                type(e).__name__, spec["only_when"], only.get(name)), "expected": spec["only_when"]})
        return fails
    for cname, expr, code, oldvals in checks:
        sc = dict(scope)
        sc.update(oldvals)
        sc["result"] = result
        try:
            ok = env.ev(code, sc, mod)
        except NameError as e:
            # the clause uses a ghost function with no run-time counterpart: it cannot be evaluated natively, which says
            # nothing about the code (never a failure)
            env.skipped_clauses = getattr(env, "skipped_clauses", set()) | {"%s: %s" % (cname, e)}
            continue
        except Exception as e:
            ok = False
            expr = expr + "   [evaluation raised %r]" % (e,)
        if not ok:
            fails.append({"clause": "ensures:" + cname, "expected": expr, "observed": "result=%s" % short(result)})
    return fails


def check_target(env, target, bname, budget, given=None):
    contract = env.store.contracts[target]
    beh = contract.behaviours[bname]
    func, mod = env.locate(target)
    out = {"target": target, "behaviour": bname, "tried": 0, "satisfying": 0, "failures": []}
    cases = []
    if getattr(contract, "abstract_calls", None) and given is None:
        # the contract replaces calls of this function (files, the peer's modules) by model externals: a generated value for
        # `conn` or a path is not an input the real function can be run on
        out["skipped"] = "calls abstracted to model externals: no native inputs"
        return out
    if given is not None:
        cases = [given]
    else:
        if beh.ghost:
            build = getattr(beh, "native_build", None) or contract_native_build(contract, beh)
            if build is None:
                out["skipped"] = "no native input builder for ghost behaviour"
                return out
            gnames = list(beh.ghost)
            glists = [candidates_for_ghost(env, g, beh.ghost[g]) for g in gnames]
            combos = list(itertools.product(*glists))
            env.rng.shuffle(combos)
            for combo in combos[:budget]:
                ghost = dict(zip(gnames, combo))
                try:
                    assignment = env.ev(compile(build, "<build>", "eval"), ghost, mod)
                except Exception:
                    continue
                cases.append({"assignment": assignment, "ghost": ghost})
        else:
            pnames = list(contract.params)
            try:
                plists = [candidates(env, contract.params[p], p, contract) for p in pnames]
            except KeyError as e:
                out["skipped"] = "no native harness for this function (%s)" % (e,)
                return out
            combos = list(itertools.product(*plists))
            if len(combos) > budget:
                env.rng.shuffle(combos)
                combos = combos[:budget]
            cases = [{"assignment": dict(zip(pnames, c)), "ghost": {}} for c in combos]
    for case in cases:
        out["tried"] += 1
        # stateful arguments come from factories: materialise them now and remember their initial state
        case["assignment"] = {k: (v() if callable(v) and getattr(v, "__name__", "") == "<lambda>" else v)
                              for k, v in case["assignment"].items()}
        stateful = any(str(srt).startswith("obj:") and srt != "obj:BytesIO" for srt in contract.params.values())
        before = (to_literal(case["assignment"]), {k: short(v, 400) for k, v in case["assignment"].items()}) if stateful else None
        try:
            fails = run_case(env, contract, beh, func, mod, case["assignment"], case["ghost"])
        except Exception as e:
            out.setdefault("errors", []).append("%s: %s" % (type(e).__name__, traceback.format_exc()[-400:]))
            continue
        finally_cleanup(env, case)
        if fails is None:
            continue
        out["satisfying"] += 1
        for f in fails:
            if len(out["failures"]) < 5:
                f = dict(f)
                f["inputs"] = before[1] if before else {k: short(v, 400) for k, v in case["assignment"].items()}
                f["inputs_pickle"] = before[0] if before else to_literal(case["assignment"])
                f["ghost"] = {k: short(v, 400) for k, v in case["ghost"].items()}
                f["ghost_pickle"] = to_literal(case["ghost"])
                out["failures"].append(f)
            out["n_failures"] = out.get("n_failures", 0) + 1
    return out


def finally_cleanup(env, case):
    for v in case["assignment"].values():
        try:
            env.harness.cleanup(v)
        except Exception:
            pass


def to_literal(d):
    """inputs as a replayable blob (pickle, hex); bytes streams are stored as bytes"""
    import pickle
    clean = {}
    for k, v in d.items():
        if isinstance(v, io.BytesIO):
            v = v.getvalue()
        clean[k] = v
    try:
        return pickle.dumps(clean).hex()
    except Exception:
        return None


def candidates_for_ghost(env, name, sort):
    if name == "d" and sort == "bytes":
        return env.harness.payloads(env.rng)
    if sort == "bool":
        return [True, False]
    if sort == "val":
        return plain_values(env.rng)
    if sort == "bytes":
        return [b"", b"\x00", b"rest-of-stream"]
    return candidates(env, sort, name, None)


def contract_native_build(contract, beh):
    return None


def main():
    import fcntl
    # the functions under test are real code run on generated inputs: one that opens a small integer as a file closes this
    # process's standard streams, so the results leave through a private descriptor far from anything an input names
    out_fd = fcntl.fcntl(1, fcntl.F_DUPFD, 700)
    job = json.load(open(sys.argv[1]))
    env = Env(job)
    results = []
    for item in job["targets"]:
        target, bname = item[0], item[1]
        given = None
        if len(item) > 2 and item[2]:
            import pickle
            given = {"assignment": pickle.loads(bytes.fromhex(item[2]["inputs_pickle"])),
                     "ghost": pickle.loads(bytes.fromhex(item[2]["ghost_pickle"])) if item[2].get("ghost_pickle") else {}}
        try:
            results.append(check_target(env, target, bname, job.get("budget", 400), given))
        except Exception as e:
            results.append({"target": target, "behaviour": bname, "error": traceback.format_exc()[-1500:]})
    with os.fdopen(out_fd, "w") as f:
        json.dump(results, f)


if __name__ == "__main__":
    main()
