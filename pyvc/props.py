"""Per-property verification plans: which contract modules, spec modules, tag table, functions
(the dependency cone put under contract), lemmas and finite checks decide each property."""

BRINE = "rpyc/core/brine.py::"
BRINE_DUMP = ["_dump_none", "_dump_notimplemeted", "_dump_ellipsis", "_dump_bool", "_dump_slice", "_dump_frozenset",
              "_dump_int", "_dump_float", "_dump_complex", "_dump_bytes", "_dump_str", "_dump_tuple", "_undumpable",
              "_dump", "dump", "dumpable"]
BRINE_LOAD = ["_load_none", "_load_nonimp", "_load_elipsis", "_load_true", "_load_false", "_load_empty_tuple",
              "_load_empty_str", "_load_float", "_load_complex", "_load_str1", "_load_str2", "_load_str3", "_load_str4",
              "_load_str_l1", "_load_str_l4", "_load_unicode", "_load_tup1", "_load_tup2", "_load_tup3", "_load_tup4",
              "_load_tup_l1", "_load_tup_l4", "_load_slice", "_load_frozenset", "_load_int_l1", "_load_int_l4",
              "_load", "load"]
BRINE_ALL = [BRINE + n for n in BRINE_DUMP + BRINE_LOAD]

PLANS = {
    "C04": dict(
        title="The value serializer is lossless and exact about what it accepts",
        contracts=["brine", "compat"], specs=["brine_spec"], table="module",
        targets=BRINE_ALL, lemmas=["app_snoc", "app_nil", "plain_snoc", "vlen_app", "sized_snoc", "vlen_snoc"],
        compositions=["C04/roundtrip", "C04/refuses-exactly-nonplain"],
        native_focus=[(BRINE + "dump", "default"), (BRINE + "load", "roundtrip"), (BRINE + "load", "safety"),
                      (BRINE + "dumpable", "default"), (BRINE + "_load", "roundtrip"), (BRINE + "_load", "safety")],
        design_ref="DESIGN.md section 4, C04",
        assumptions=[
            "T-ENGINE: pyvc's translation of the stated Python subset to SMT (DESIGN 2.3, 7)",
            "T-SMT: an `unsat` answer of z3 5.1 / cvc5 1.0.3 / z3 4.8.12 is sound",
            "T-IND: structural induction scheme of the list lemmas (base/step are discharged obligations)",
            "T-STRUCT: struct.Struct('!B','!L','!d','!dd') pack/unpack are inverse, fixed size, range-checked",
            "T-FLOAT: '!d' packing is a bijection on 64-bit patterns (no NaN canonicalisation)",
            "T-UTF8: UTF-8 with surrogatepass is total and injective; the strict codec rejects exactly lone surrogates",
            "int(str(i).encode()) == i; str(i) raises only beyond the interpreter's digit limit",
            "b''.join(list) is concatenation; BytesIO.read(k) returns the next min(k, remaining) bytes",
            "tuple(frozenset) is a permutation of its items; frozenset(items) raises only on unhashable items",
            "scope: lengths and digit counts < 2**32 (32-bit length fields of the format); no recursion limit",
            "modelling: a frozenset value is identified with the canonical list of its items (wf)",
        ],
    ),
}

STREAM = "rpyc/core/stream.py::"
CHANNEL = "rpyc/core/channel.py::"
STREAM_FUNCS = [STREAM + n for n in ("ClosedFile.fileno", "SocketStream.close", "SocketStream.read", "SocketStream.write",
                                     "PipeStream.close", "PipeStream.read", "PipeStream.write")]
CHANNEL_FUNCS = [CHANNEL + "Channel.send", CHANNEL + "Channel.recv"]
COMMON_ASSUMPTIONS = PLANS["C04"]["assumptions"][:3]

PLANS["C05"] = dict(
    title="Packets arrive whole, in order and unaltered however the transport fragments",
    contracts=["brine", "compat", "externals", "stream", "channel"], specs=["brine_spec", "channel_spec"], table="module",
    targets=STREAM_FUNCS + CHANNEL_FUNCS, lemmas=[], compositions=["C05/sequence-step"],
    native_focus=[(STREAM + "SocketStream.read", "default"), (STREAM + "SocketStream.write", "default"),
                  (CHANNEL + "Channel.send", "default"), (CHANNEL + "Channel.recv", "roundtrip")],
    design_ref="DESIGN.md section 4, C05",
    assumptions=COMMON_ASSUMPTIONS + [
        "A-FIFO: a connected socket / pipe pair delivers the bytes accepted at one end to the other end in order, unmodified",
        "library models of socket.recv/send/shutdown/close, os.read/os.write, pipe ends (contracts/externals.py): "
        "recv returns any non-empty prefix (<= k) of the pending input, b'' at end of stream, socket.timeout, or "
        "socket.error with any errno; send accepts any prefix; close() does not raise",
        "zlib: decompress(compress(d, level)) == d; decompress raises zlib.error on anything it rejects",
        "T-STRUCT for '!LB'",
        "single reader / single writer per stream (the `schedules` part of the quantifier is not covered)",
        "termination of the retry loops is not proved (a transport that times out forever blocks forever)",
        "scope: packet length (raw and compressed) < 2**32",
        "Channel is verified against SocketStream's read/write/close contracts; PipeStream's contracts have the same "
        "shape over its own ghost buffers (stated, compared by inspection)",
    ],
)

PLANS["C19"] = dict(
    title="Bytes on the wire are those of the published 5.x protocol",
    contracts=["brine", "compat", "externals", "stream", "channel"], specs=["brine_spec", "channel_spec"], table="reference",
    targets=BRINE_ALL + CHANNEL_FUNCS, lemmas=["app_snoc", "app_nil", "plain_snoc", "vlen_app", "sized_snoc", "vlen_snoc"],
    compositions=["C04/roundtrip", "C05/sequence-step"], finite=["wire_constants"],
    native_focus=[(BRINE + "dump", "default"), (BRINE + "load", "roundtrip"), (CHANNEL + "Channel.send", "default"),
                  (CHANNEL + "Channel.recv", "roundtrip")],
    design_ref="DESIGN.md section 4, C19",
    assumptions=PLANS["C04"]["assumptions"] + [
        "the published 5.x format is fixed as the frozen reference spec/wire_5x.json (transcribed once from the pinned "
        "commit; no separate format document exists in docs/); 52 golden vectors are re-derived from the spec each run",
        "zlib streams are interoperable (only the flag byte and the threshold are part of the format); "
        "COMPRESSION_LEVEL is not part of the format",
        "library models of the transport (contracts/externals.py), A-FIFO",
        "message / request layouts (kind, seq, args), (handler, boxed args) are covered by the protocol contracts "
        "only once those are under contract (see C08/C01); here: value encoding, framing and all numeric constants",
    ],
)

PROTO = "rpyc/core/protocol.py::Connection."
ATTR_FUNCS = [PROTO + n for n in ("_check_attr", "_access_attr", "_handle_getattr", "_handle_setattr", "_handle_delattr",
                                  "_handle_call", "_handle_callattr", "_handle_cmp", "_handle_ctxexit", "_handle_oldslicing")]
SERVICE_HOOKS = ["rpyc/core/service.py::Service._rpyc_delattr", "rpyc/core/service.py::Service._rpyc_setattr"]
ALL_CONTRACTS = ["brine", "compat", "externals", "stream", "channel", "protocol_attr", "colls", "protocol_box", "protocol_core", "async_", "protocol_close", "lib", "netref", "protocol_handlers", "scenarios", "vinegar", "classic", "registry", "server", "protocol_init", "helpers", "service"]
ALL_SPECS = ["brine_spec", "channel_spec", "policy_spec", "refcount_spec", "protocol_spec", "box_spec", "netref_spec", "vinegar_spec", "registry_spec", "server_spec"]

PLANS["C06"] = dict(
    title="Attribute access by the peer follows the connection's policy, and only its own",
    contracts=ALL_CONTRACTS, specs=ALL_SPECS, table="module",
    targets=ATTR_FUNCS + SERVICE_HOOKS + [PROTO + "__init__"] +
            ["rpyc/utils/helpers.py::" + n for n in ("restricted", "restricted.<locals>.Restricted._rpyc_getattr",
                                                     "restricted.<locals>.Restricted._rpyc_setattr")], lemmas=[], compositions=[],
    native_focus=[(PROTO + "_check_attr", "default")],
    design_ref="DESIGN.md section 4, C06",
    assumptions=COMMON_ASSUMPTIONS + [
        "hasattr(obj, name) and set membership `name in safe_attrs` are pure predicates (no side effects)",
        "getattr(type(obj), hook_name, None) returns the class attribute or None without side effects",
        "a call of an unknown callable (the accessor, the object's own hook, the looked-up method) is one ghost Call "
        "event with an arbitrary result / exception; it does not modify the connection's configuration",
        "*args of a non-tuple value contributes the items its iteration yields (uninterpreted)",
        "type invariant of a connection's configuration (precondition): the seven switches are bools, the prefix is text",
        "when a name is allowed AND the object has an exposed twin, either may be accessed (the statement does not "
        "choose); every other case is pinned by the statement",
        "`and only its own`: Connection.__init__ is verified to give each connection its own newly created copy of the "
        "configuration (the caller's entries over the defaults) - one connection's policy cannot be another's",
        "restricted views: helpers.restricted and its two hooks (closures of a class statement inside the function) are verified - the "
        "read hook answers exactly for names in `attrs` (one getattr on the wrapped object, AttributeError and no effect otherwise), "
        "the write hook exactly for names in `wattrs`, which is `attrs` only when wattrs is None; membership in a dynamic name list is "
        "the pure predicate val_contains(list, name) (a user-defined __contains__ with effects is outside the model)",
    ],
)

PLANS["C12"] = dict(
    title="Concurrent senders never interleave, lose or strand a message (single-thread re-entrant schedules only)",
    contracts=ALL_CONTRACTS, specs=ALL_SPECS, table="module",
    targets=[PROTO + "_send"], lemmas=["frames_app", "all_fit_app"], compositions=[],
    native_focus=[], design_ref="DESIGN.md section 4, C12",
    assumptions=COMMON_ASSUMPTIONS + [
        "RESTRICTED SCOPE: one thread; arbitrarily many sends started re-entrantly on the thread that is already inside "
        "a send (proxy finalizers running during transmission), nested to any depth. Schedules with two or more "
        "threads are NOT covered - in particular the `if not self._send_queue: continue` re-check is dead code here",
        "re-entrancy model: while Channel.send runs, nested _send calls find the lock held and therefore only APPEND to "
        "the queue (their own `held` contract); so after the call the queue is the old queue plus arbitrary appended "
        "messages, each within the format's size limit",
        "threading.Lock with sequential semantics (ghost flag held); list.append / pop(0) as operations on a sequence",
        "Channel.send's contract (discharged under C05 / C19): one call = one contiguous frame",
        "scope: every message fits the 32-bit length field of the frame",
    ],
)

COLLS = "rpyc/lib/colls.py::RefCountingColl."
ASYNC = "rpyc/core/async_.py::AsyncResult."
TIMEOUT = "rpyc/lib/__init__.py::Timeout."

PLANS["C10"] = dict(
    title="Objects lent to the peer live exactly as long as the peer holds them",
    contracts=ALL_CONTRACTS, specs=ALL_SPECS, table="module",
    targets=[COLLS + n for n in ("add", "decref", "clear", "__getitem__")], lemmas=[], compositions=["C10/inductive"],
    native_focus=[], design_ref="DESIGN.md section 4, C10",
    assumptions=COMMON_ASSUMPTIONS + [
        "PARTIAL: under contract are the reference-counting table (add / decref / clear / lookup, whole-view "
        "postconditions with frame) and the inductive invariant B = F + P + D over ALL histories of box / unbox / "
        "drop-proxy / deliver-release transitions in any order (so a release notice crossing a fresh reference is "
        "covered without enumerating interleavings). NOT yet under contract: that _box / _unbox / BaseNetref.__del__ / "
        "_handle_del perform exactly these transitions (stated as the transition system of the lemma) and _cleanup",
        "a slot list fetched from the table aliases the table entry; slots of distinct ids are distinct list objects",
        "T-GC: a proxy's finalizer runs once when it becomes unreachable; T-ID: id packs of simultaneously live objects differ",
        "single-threaded transitions (the table's lock is modelled sequentially)",
    ],
)
PLANS["C15"] = dict(
    title="Asynchronous results: one final outcome, callbacks once, timeouts exact",
    contracts=ALL_CONTRACTS, specs=ALL_SPECS, table="module",
    targets=[TIMEOUT + n for n in ("__init__", "expired", "timeleft")] +
            [ASYNC + n for n in ("__init__", "__call__", "add_callback", "set_expiry", "wait", "value", "ready")] +
            [PROTO + "async_request", PROTO + "sync_request", "rpyc/utils/helpers.py::_Async.__call__", "rpyc/utils/helpers.py::timed.__call__"],
    lemmas=["app_app1", "app_nil"], compositions=[], bounded=["asyncresult_callbacks_bounded"], native_focus=[], design_ref="DESIGN.md section 4, C15",
    assumptions=COMMON_ASSUMPTIONS + [
        "time is a real-valued ghost clock: every time.time() returns a value not smaller than any earlier one; floats used "
        "for deadlines are treated as mathematical reals (machine arithmetic treated as mathematical)",
        "negative timeouts are excluded by precondition (the statement does not say what they mean; the code treats them "
        "as `no expiry`); the single instant now == tmax is left open",
        "callbacks are called through the uninterpreted `apply` (one ghost Call event each); they are assumed not to touch "
        "the result's own fields",
        "Connection.serve / poll_all are interface contracts here (ASSUMED): they may complete any pending result of the "
        "connection through AsyncResult.__call__ (whose own contract gives finality) and never raise TimeoutError",
        "the real-time half of `not later unless busy serving` (that poll returns by the deadline) is the OS's contract: "
        "proved is that wait() hands serve() the result's OWN deadline object and re-tests it after every call",
        "BOUNDED companion (not a proof; the proof of AsyncResult.__call__ is the loop contract): the real class is run for 0..6 "
        "callbacks before and 0..2 after the reply, value and exception replies (42 cases) - it exists because "
        "a restructured loop makes the loop contract stale (exit 3), as the seeded change C15-callbacks-reversed showed",
        "helpers._Async.__call__ and helpers.timed.__call__ are verified: one asynchronous call request with exactly the given "
        "arguments; a timed call sets the expiry of exactly that result to exactly the wrapper's timeout, once (the result "
        "object is dynamic there: set_expiry is a ghost call event, its own contract is AsyncResult.set_expiry's); async_() / "
        "timed.__init__ (weak cache of wrappers) are not under contract",
    ],
)
PLANS["C08"] = dict(
    title="Every request gets exactly one response, delivered to its own requester",
    contracts=ALL_CONTRACTS, specs=ALL_SPECS, table="module",
    targets=[PROTO + n for n in ("_send", "_get_seq_id", "_dispatch_request", "_seq_request_callback", "_dispatch",
                                 "_async_request")],
    lemmas=["frames_app", "all_fit_app"], compositions=[], native_focus=[], design_ref="DESIGN.md section 4, C08",
    assumptions=COMMON_ASSUMPTIONS + [
        "sequential execution (threads: C13, not claimed)",
        "the handler table call self._HANDLERS[handler](self, *args) is abstracted by the model `handler_run`: unknown "
        "number / wrong arguments -> KeyError / TypeError and no handler runs; otherwise exactly one handler runs once and "
        "returns or raises anything (the 20 handlers themselves are checked against contracts only where C06/C10 need them)",
        "ASSUMED interface contracts (bodies not yet verified): Connection._box / _unbox / _box_exc / _unbox_exc",
        "loggers neither raise nor touch program state (A-LOG)",
        "next() on itertools.count is strictly increasing (fresh sequence numbers)",
        "scope of _send: see C12; messages appended by nested sends fit the frame's length field",
    ],
)

PLANS["C11"] = dict(
    title="Every way a connection can end leaves both sides clean, once, and nobody hanging",
    contracts=ALL_CONTRACTS, specs=ALL_SPECS, table="module",
    targets=[CHANNEL + "Channel.close", "rpyc/lib/colls.py::WeakValueDict.clear", STREAM + "SocketStream.close",
             COLLS + "clear"] +
            [PROTO + n for n in ("_cleanup", "close", "_handle_close", "__exit__", "__del__", "serve", "serve_all",
                                 "_async_request", "_send", "root")],
    lemmas=["frames_app", "all_fit_app"], compositions=[], native_focus=[], design_ref="DESIGN.md section 4, C11",
    assumptions=COMMON_ASSUMPTIONS + [
        "single thread (A-SEQ): locks and the receive condition are modelled sequentially",
        "service hooks (on_disconnect) and stream.close() return normally (A-HOOKS)",
        "a configured before_closed hook is covered by close[with_hook] for a transport that is open at entry: the hook and the read of "
        "self.root are library models (ghost event; touch what an exchange on the connection touches and keep the table invariants; return "
        "or raise anything; may leave the transport dead - the read of the root ASSUMED so); close with a hook on an already dead transport "
        "is not covered; the other behaviours of close are for connections without a hook",
        "Channel.poll is an ASSUMED interface contract (select/poll objects are not modelled): EOFError on a closed "
        "stream, select errors, no bytes consumed",
        "the handler table call is abstracted by the model handler_run; the close handler's effect is taken from "
        "Connection._handle_close / _cleanup's own contract",
        "`nobody hangs` (liveness), two real processes closing at once, and close racing close on two threads are out of "
        "reach: proved are the end-state clauses on every exit path of close / serve / serve_all for every failure the "
        "transport's model can produce at every individual poll / read / write",
        "AsyncResult.wait on a closed connection and poll_all are covered by C15's interface contracts only",
    ],
)


NETREF = "rpyc/core/netref.py::"
BN = NETREF + "BaseNetref."
SCEN = "@verif/spec/scenarios.py::"
LIBF = "rpyc/lib/__init__.py::"
BOX_LEMMAS = ["app_snoc", "app_nil", "plain_snoc", "app_app1", "snoc_is_app"]

PLANS["C03"] = dict(
    title="Immutable values travel by copy, everything else by reference; identity survives",
    contracts=ALL_CONTRACTS, specs=ALL_SPECS, table="module",
    targets=[BRINE + "dumpable", PROTO + "_box", PROTO + "_unbox", LIBF + "get_id_pack",
             COLLS + "add", COLLS + "__getitem__", COLLS + "decref", PROTO + "_handle_pickle", BN + "__reduce_ex__",
             SCEN + "echo_returns_the_original", SCEN + "value_travels_by_copy", SCEN + "same_object_same_proxy",
             SCEN + "forged_reference_is_refused"],
    lemmas=BOX_LEMMAS, compositions=["C04/roundtrip"], native_focus=[(BRINE + "dumpable", "default")], design_ref="DESIGN.md section 4, C03",
    assumptions=COMMON_ASSUMPTIONS + [
        "the value / reference decision is Connection._box's verified postcondition result == boxed(obj, conn) (spec/box_spec.py: "
        "by value exactly when brine.dumpable says plain - exact types only, so subclass instances travel by reference; "
        "item-wise for tuples; local-reference label for a proxy of this very connection; remote reference otherwise)",
        "the identity clauses are postconditions of ghost clients (spec/scenarios.py) verified against the contracts of "
        "_box / _unbox: echo -> the original object; plain value -> equal value of the same type; received again -> the same proxy",
        "a label travels between the two peers unaltered: it is a plain value (verified), C04 round trip and C05 framing",
        "T-ID (ASSUMED): id packs of simultaneously live objects differ; what the owner's table holds under v's id pack is v",
        "T-WEAKREF (ASSUMED): the proxy cache is modelled as a map id pack -> live proxy (WeakValueDict lookups are interface "
        "contracts); entries do not vanish in the middle of one _unbox",
        "ASSUMED interface contract: Connection._netref_factory (class synthesis; a new proxy object with count 1 for this "
        "connection and id pack). Its assumed frame (transport buffers, reference counts) is SMALLER than what the real function "
        "can touch: for the first proxy of a class it sends a nested HANDLE_INSPECT request, and while that waits the connection "
        "serves whatever else arrives (any handler may run), and it records the generated class in _netref_classes_cache - this "
        "re-entrancy inside _unbox is not modelled",
        "get_id_pack: assumed_deterministic (the same object yields the same id pack while it lives)",
        "obtain / deliver: only the pickling switch (_handle_pickle refuses before pickling unless allow_pickle) and the proxy's "
        "__reduce_ex__ forwarding are under contract; that pickle.loads(pickle.dumps(x)) is an equal independent copy is the "
        "library's contract (T-PICKLE), not checked",
        "`a change made through the reference is a change to the owner's object` follows from echo identity (the handler "
        "receives the owner's object itself) plus C06's handlers acting on exactly that object",
    ],
)

PLANS["C10"]["targets"] = PLANS["C10"]["targets"] + [
    PROTO + "_box", PROTO + "_unbox", PROTO + "_handle_del", NETREF + "asyncreq", BN + "__del__", PROTO + "_cleanup",
    PROTO + "_dispatch", SCEN + "same_object_same_proxy"]
PLANS["C10"]["lemmas"] = BOX_LEMMAS
PLANS["C10"]["assumptions"] = COMMON_ASSUMPTIONS + [
    "under contract: the reference-counting table (add / decref / clear / lookup, whole-view postconditions with frame); "
    "_box adds exactly one box per occurrence of a lent id (tuples counted item-wise); _unbox bumps the live proxy's count by "
    "one or creates a proxy with count 1; the proxy finalizer sends ONE release notice carrying the proxy's WHOLE count; "
    "_handle_del removes exactly that many boxes of exactly that id; _cleanup empties the table; _dispatch unboxes the payload of "
    "EVERY arriving reply (so every reference in flight becomes a proxy whose finalizer returns its count, also when nobody waits "
    "for the reply any more)",
    "the inductive invariant B = F + P + D over ALL histories of box / unbox / drop-proxy / deliver-release transitions in any "
    "order (a release notice crossing a fresh reference is covered without enumerating interleavings); each transition's "
    "effect is the spec function the contracts above are stated with",
    "a slot list fetched from the table aliases the table entry; slots of distinct ids are distinct list objects",
    "T-GC (ASSUMED): a proxy's finalizer runs once when it becomes unreachable; T-ID: id packs of simultaneously live objects differ",
    "T-WEAKREF (ASSUMED): the proxy cache is a map id pack -> live proxy; the window between a proxy's death and its cache "
    "entry vanishing is not modelled",
    "single-threaded transitions (the table's lock is modelled sequentially)",
    "ASSUMED interface contract: Connection._netref_factory (a new proxy for this connection and id pack; the nested INSPECT request "
    "it may send, and what is served re-entrantly while it waits, are not modelled)",
]


MM = NETREF + "_make_method.<locals>."
FWD_METHODS = [BN + m for m in ("__getattribute__", "__getattr__", "__delattr__", "__setattr__", "__dir__", "__hash__", "__cmp__",
                                "__eq__", "__ne__", "__lt__", "__gt__", "__le__", "__ge__", "__repr__", "__str__", "__exit__",
                                "__reduce_ex__", "__instancecheck__", "__del__")]
GEN_METHODS = [MM + "__call__", MM + "method#0", MM + "method#1", MM + "__array__"]
SMALL_HANDLERS = [PROTO + n for n in ("_handle_ping", "_handle_getroot", "_handle_repr", "_handle_str", "_handle_hash", "_handle_dir",
                                      "_handle_buffiter", "_handle_pickle", "_handle_del")]

PLANS["C02"] = dict(
    title="Operating on a proxy is indistinguishable from operating on the target (per-operation forwarding)",
    contracts=ALL_CONTRACTS, specs=ALL_SPECS, table="module",
    targets=[NETREF + "syncreq", NETREF + "asyncreq"] + FWD_METHODS + GEN_METHODS + SMALL_HANDLERS + ATTR_FUNCS,
    lemmas=[], compositions=[], finite=["handler_table"], bounded=["buffiter_bounded", "get_methods_bounded"], native_focus=[], design_ref="DESIGN.md section 4, C02",
    assumptions=COMMON_ASSUMPTIONS + [
        "SCOPE: the property is decided operation by operation. PROXY HALF (verified): every special method of BaseNetref and "
        "every generated method (_make_method's four shapes) performs exactly ONE request on the proxy's own connection, with "
        "the handler number and exactly the operands the operation has, and returns its result / lets its exception through; "
        "names in LOCAL_ATTRS never leave the process. TABLE (enumerated on the real table): each handler number is served by "
        "the handler function of that operation, numbers are distinct, arities match. SERVING HALF (verified): each handler "
        "applies exactly that operation once to exactly the object it was handed (ghost Op / Call events) and returns / "
        "raises what the operation did; attribute handlers additionally obey the policy (C06)",
        "that the request's operands reach the handler as equal values / the same objects, and the result travels back, is "
        "C03 (boxing) + C08 (dispatch) + C05/C04 (transport); exception identity is C09",
        "`same result as on the target` then follows because the handler runs the very operation on the very object; the "
        "operations themselves (repr, hash, getattr, the call) are ghost events, i.e. arbitrary user code",
        "NOT under contract: which methods a generated proxy class has (class_factory, _handle_inspect, lib.get_methods, "
        "NetrefClass), __instancecheck__ against non-proxy objects, bool()/len()/iteration which go through generated methods "
        "(covered as _make_method shapes only)",
        "BOUNDED (not a proof): lib.get_methods (which attribute names a generated proxy class gets as methods) is run on class "
        "hierarchies inside a stated bound against Python's own attribute resolution - the most derived definition decides",
        "BOUNDED (not a proof): helpers.buffiter is a generator, outside the verifier's subset; it is run against its spec "
        "(yields exactly what plain iteration yields, exhausts the target) for every combination of target length 0..40, chunk "
        "1..9, max_chunk 1..9, factor in {1, 2, 3, 5}, with the request served by the handler's own logic",
        "self.__getattr__ inside __getattribute__ resolves to BaseNetref.__getattr__ (LOCAL_ATTRS lookup; class_factory never "
        "overrides a LOCAL_ATTRS name)",
        "kwargs are forwarded as tuple(kwargs.items()) - an uninterpreted function of the dict's contents (order = the dict's)",
        "old-style slicing methods: stop is an int or None (Python 2 call convention)",
    ],
)


PLANS["C01"] = dict(
    title="Remote calls compute what a local call would, at any nesting depth (hop-by-hop contracts)",
    contracts=ALL_CONTRACTS, specs=ALL_SPECS, table="module",
    targets=[MM + "__call__", MM + "method#1", NETREF + "syncreq", PROTO + "sync_request", PROTO + "async_request",
             PROTO + "_async_request", PROTO + "_box", PROTO + "_unbox", PROTO + "_send", PROTO + "_dispatch",
             PROTO + "_dispatch_request", PROTO + "_seq_request_callback", PROTO + "_handle_call", PROTO + "_handle_callattr",
             PROTO + "_access_attr", ASYNC + "__call__", ASYNC + "value", ASYNC + "wait",
             SCEN + "echo_returns_the_original", SCEN + "value_travels_by_copy"],
    lemmas=BOX_LEMMAS + ["frames_app", "all_fit_app"], compositions=["C04/roundtrip"], finite=["handler_table", "builtin_exceptions"],
    native_focus=[], design_ref="DESIGN.md section 4, C01",
    assumptions=COMMON_ASSUMPTIONS + [
        "SCOPE: the property is decided hop by hop, each hop a verified contract: (1) a callable proxy / generated method "
        "sends ONE request carrying exactly (args, tuple(kwargs.items())) [+ the method name]; (2) _async_request boxes the "
        "operands item-wise (plain values by value, everything else by reference, C03) and sends one request message with a "
        "fresh number; (3) _dispatch_request unboxes, runs AT MOST ONE handler ONCE, and sends exactly one reply carrying the "
        "boxed result, or one exception reply; (4) _handle_call applies the callable exactly once to exactly (*args, "
        "**dict(kwargs)); (5) _dispatch/_seq_request_callback hand the unboxed reply to the requester's own callback once "
        "(C08); (6) AsyncResult delivers that value, or raises that exception, to the caller (C15)",
        "NESTING: a handler runs arbitrary service code that may call back into the peer. The handler-table model "
        "(handler_run) therefore lets one handler run touch everything a message exchange touches (sequence counter, "
        "callback table, tables of lent objects and proxies, transport buffers) while preserving the connection's class "
        "invariants - which is what each nested exchange, being one of the functions under contract, guarantees. So every "
        "contract above holds at every nesting depth (modular induction on depth; termination / liveness not proved)",
        "`the same answer as in one process` is not a single machine-checked theorem: it is the composition of (1)-(6) with "
        "C03 identity (echo scenario) and C09 exception fidelity, argued in DESIGN.md",
        "ASSUMED interface contracts: _box_exc / _unbox_exc (vinegar: C09), _netref_factory; Connection.serve as seen by a "
        "waiter; poll_all",
        "the callable itself is a ghost Call event: arbitrary user code with an arbitrary result or exception",
        "sequential execution; threads (C13/C14) not covered",
    ],
)


VINEGAR = "rpyc/core/vinegar.py::"
PLANS["C09"] = dict(
    title="Remote exceptions arrive as the same class with the same data, and safely",
    contracts=ALL_CONTRACTS, specs=ALL_SPECS, table="module",
    targets=[VINEGAR + "dump", VINEGAR + "load", PROTO + "_box_exc", PROTO + "_unbox_exc"],
    lemmas=["plain_snoc", "snoc_is_app", "last_snoc"], compositions=[], finite=["builtin_exceptions"], native_focus=[],
    design_ref="DESIGN.md section 4, C09",
    assumptions=COMMON_ASSUMPTIONS + [
        "SENDER (vinegar.dump, verified): the record is plain; it names the class by (__module__, __name__); every argument "
        "travels as itself if it is a plain value, else as repr() of exactly that argument; every public data attribute is "
        "read once from exactly the exception object and treated the same way, private names are never read; the traceback text "
        "is produced only when include_local_traceback, the version text only when include_local_version; the StopIteration "
        "shortcut is taken only when there are no arguments to lose",
        "RECEIVER (vinegar.load, verified for all four settings of the two switches; the quick tier runs the closed default and "
        "the fully open setting, the thorough tier all four): nothing is imported unless import_custom_exceptions (at most one "
        "import); the instance is allocated by cls.__new__(cls) exactly once and no constructor / other callable is called (the "
        "only call possible is .split of the record's version text); the class is the real exception class found under the "
        "record's names - in any imported module only if instantiate_custom_exceptions, else only in the built-in module - and "
        "otherwise the generic stand-in named after the original; arguments and attributes are set on exactly that instance",
        "for ANY plain payload (crafted or genuine): type confusions in the payload raise (TypeError / ValueError / "
        "AttributeError) or run the payload's own text methods; they are modelled as exceptions / ghost events, not excluded",
        "_box_exc / _unbox_exc (verified): the switches come from THIS connection's configuration",
        "the built-in classes, exhaustively (enumeration on the real interpreter): each one's record is rebuilt as an instance of "
        "that very class with the same arguments, name and module",
        "ASSUMED: _get_exception_class (class synthesis: a subclass with the same name / module); traceback.format_exception and "
        "''.join as library models; getattr(module, name, default) is a pure lookup; `%` formatting of plain operands is a pure "
        "function; T-CLASSNAMES (the class of a raised exception has a text __name__ / __module__); reading .args of an exception "
        "yields a tuple; vinegar's cache of stand-in classes holds, under each name, a stand-in class of that name (class invariant)",
        "that the record reaches the peer unaltered: C04 / C05; that an exception reply is what an exception becomes: C08",
        "the remote traceback's place in str(exc) (the Derived class's __str__) is not under contract",
    ],
)


PLANS["C07"] = dict(
    title="A hostile peer cannot step outside what the service exposes",
    contracts=ALL_CONTRACTS, specs=ALL_SPECS, table="module",
    targets=ATTR_FUNCS + [PROTO + n for n in ("_unbox", "_handle_pickle", "_handle_del", "_unbox_exc", "_box_exc")] +
            [VINEGAR + "load", COLLS + "__getitem__", COLLS + "decref", SCEN + "forged_reference_is_refused"],
    lemmas=["frames_app", "all_fit_app", "plain_snoc", "snoc_is_app", "app_app1", "app_nil"], compositions=[],
    finite=["handler_table", "default_config"], native_focus=[], design_ref="DESIGN.md section 4, C07",
    assumptions=COMMON_ASSUMPTIONS + [
        "the peer is modelled as an arbitrary sequence of well-framed messages: every function below is verified for an "
        "ARBITRARY plain payload (brine.load's safety contract: whatever arrives decodes to a plain value or raises)",
        "(1) callables / attributes: every attribute handler (getattr, setattr, delattr, call, callattr, cmp, ctxexit, "
        "oldslicing) reaches the object only through _check_attr with the right permission, for every payload (C06's contracts)",
        "(2) references: an incoming local-reference label is resolved through THIS connection's table of lent objects and "
        "nothing else; an id that is not in it is refused with KeyError (Connection._unbox[local_reference], the ghost client "
        "forged_reference_is_refused); a remote-reference label only ever creates / reuses a proxy; unknown labels are refused",
        "(3) pickling: _handle_pickle refuses before anything is pickled unless allow_pickle; the closure scan (enumeration over "
        "rpyc/core's source) finds pickle / import / eval / exec only at _handle_pickle (guarded), the proxy-side pickling "
        "helpers (run by local code, not by the peer) and vinegar.load's import (guarded); the default configuration has "
        "allow_pickle, import_custom_exceptions and instantiate_custom_exceptions off (enumeration over DEFAULT_CONFIG)",
        "(4) crafted exception payloads: vinegar.load[closed] - no import, no constructor, only built-in exception classes or the "
        "generic stand-in, for ANY plain payload (type confusions raise)",
        "(5) the handler table serves exactly the published handler numbers (enumeration); that every failure of a handler is "
        "ANSWERED with an exception reply is C08's clause (Connection._dispatch_request / _dispatch are verified there, with the "
        "findings F2 / F11: a reply that cannot be produced ends the connection - which C07's statement allows: `at worst ends "
        "that one connection`)",
        "NOT covered: _handle_inspect / _handle_instancecheck / _handle_getroot bodies beyond their table lookups; denial of "
        "service (a peer can always send huge or endless messages)",
        "`leaves the service's state untouched`: frames of the refusing paths (modifies = nothing on KeyError / AttributeError "
        "paths); what an ALLOWED call does to the service is the service's business",
    ],
)


CLASSIC = "rpyc/utils/classic.py::"
PLANS["C20"] = dict(
    title="Uploading and downloading files reproduces them byte for byte",
    contracts=ALL_CONTRACTS, specs=ALL_SPECS, table="module",
    targets=[CLASSIC + n for n in ("upload", "upload_file", "upload_dir", "download", "download_file", "download_dir")],
    lemmas=[], compositions=[], native_focus=[], design_ref="DESIGN.md section 4, C20",
    assumptions=COMMON_ASSUMPTIONS + [
        "FILE MODEL (assumed library contract): a file object has a fixed content; read(k) with k >= 1 on a regular file returns "
        "exactly the next min(k, remaining) bytes (short only at end of file); write(b) appends all of b; open() yields a new "
        "object at position 0; a file used in `with` is closed on every exit. A proxy of the peer's file object behaves the same "
        "(C02). The copy loops are proved for EVERY chunk size >= 1 and every content (loop invariant: written == content[:pos])",
        "FILE SYSTEM MODEL (assumed): which paths are directories / files, what a directory lists and how names join are "
        "uninterpreted functions of the path and the side; listdir returns texts",
        "directory level (verified per call, for every tree by the recursion's modularity): a directory goes to the directory "
        "function, a file to the copy loop, anything else raises unless ignore_invalid; the destination directory is created iff "
        "missing; the filter is asked exactly once per entry with exactly the entry's name; an accepted entry is transferred to "
        "join(dst, name) from join(src, name) with the same filter and chunk size; a rejected entry causes no event at all",
        "`reproduces the whole tree` is the induction over the tree's depth on these per-call contracts (stated, not "
        "mechanised); termination (finite trees, no symlink cycles) is not proved",
        "NOT covered: upload_package / upload_module (path discovery through distutils), obtain / deliver (C03)",
        "I/O errors (OSError from open/read/write/listdir/makedirs, any failure of a remote call) propagate: the statement is about "
        "transfers that complete",
    ],
)


REG = "rpyc/utils/registry.py::RegistryServer."
PLANS["C18"] = dict(
    title="The registry reflects exactly the live registrations and cannot be knocked over (table and serving loop)",
    contracts=ALL_CONTRACTS, specs=ALL_SPECS, table="module",
    targets=[REG + n for n in ("_add_service", "_remove_service", "cmd_register", "cmd_unregister", "_work")],
    lemmas=[], compositions=[], bounded=["registry_query_bounded", "registry_history_bounded"], native_focus=[], design_ref="DESIGN.md section 4, C18",
    assumptions=COMMON_ASSUMPTIONS + [
        "abstract view: the set of live registrations (name, address) with the time of their last refresh; the code's nested table "
        "name -> {address: time} is modelled as a dict of dicts over two-dimensional arrays (an inner dict has no state of its own)",
        "VERIFIED: _add_service registers / refreshes exactly (name, address) at the current time and notifies exactly when it is "
        "new; _remove_service removes exactly (name, address), drops an emptied name, and notifies exactly when it was registered "
        "(fix F4); both leave every other registration untouched (whole-view frame); cmd_register registers exactly (host, port) "
        "under the upper-case form of each name; cmd_unregister removes exactly (host, port) under each name; the serving loop "
        "_work: for ANY datagram (any plain value in place of (magic, command, args), undecodable bytes, wrong arity / types) no "
        "Exception ends the loop (fix F3), the table's invariant is kept, and a reply is sent only for a command that returned",
        "ASSUMED interface contract: cmd_query (sorted() over a dict view with a key function is outside the subset): it answers "
        "with an encodable tuple and prunes through _remove_service. So `exactly the servers ... oldest refresh first` and the "
        "pruning interval are NOT verified - BOUNDED stand-in only: cmd_query of the real class is run against the statement's answer "
        "(membership, pruning, oldest first, case-insensitive name, notifications of pruned entries, other names untouched) for every "
        "table of up to 3 servers in all insertion orders with refresh times {fresh, older, at the limit, stale} (1263 cases)",
        "ASSUMED: _recv / _send of the concrete servers as library models (a datagram or socket.error / socket.timeout; sending "
        "swallows socket errors); the hooks on_service_added / on_service_removed may raise anything; time.time() is a ghost clock",
        "NOT covered: the TCP server's blocking recv on an accepted socket (a silent TCP client stalls the loop: finding F8 of "
        "DESIGN.md 6 needs a model of blocking I/O, out of reach), the registry clients (registrars), case-insensitivity of query "
        "(inside cmd_query)",
        "getattr(self, 'cmd_%s' % x, None) resolves to the class's method of that name; `%` formatting keeps the literal prefix",
    ],
)


SRV = "rpyc/utils/server.py::"
PLANS["C17"] = dict(
    title="Closing a server ends all its clients; departed clients leave nothing behind (partial: tracking and close discipline)",
    contracts=ALL_CONTRACTS, specs=ALL_SPECS, table="module",
    targets=[SRV + n for n in ("Server.close", "ThreadPoolServer._drop_connection", "ThreadPoolServer.close",
                               "Server._authenticate_and_serve_client", "OneShotServer._accept_method",
                               "ThreadPoolServer._accept_method", "Server._serve_client", "Server._handle_connection",
                               "ThreadPoolServer._authenticate_and_build_connection", "ThreadPoolServer._add_inactive_connection",
                               "ForkingServer._handle_sigchld")],
    lemmas=[], compositions=[], native_focus=[], design_ref="DESIGN.md section 4, C17",
    assumptions=COMMON_ASSUMPTIONS + [
        "PARTIAL, sequential: VERIFIED - Server.close is idempotent; the first call marks the server closed and inactive, attempts "
        "to shut the listener down and closes it, then for EVERY tracked client socket attempts a shutdown (failure ignored) and "
        "closes it, and empties the tracking set; ThreadPoolServer.close closes the base server, wakes and joins its threads and then drops "
        "EVERY connection it still holds (fd_to_conn is empty afterwards; fix F7); _drop_connection forgets exactly that descriptor "
        "and closes exactly that connection; Server._authenticate_and_serve_client, on every exit for which an Exception (or "
        "nothing) is raised - authentication refused, authentication raising, serving raising, normal end - attempts to shut the "
        "client's socket down and removes exactly that socket from self.clients, serving at most once and only after successful "
        "authentication; OneShotServer._accept_method serves one client and then closes the server on every exit; "
        "ThreadPoolServer._accept_method: once the pool owns the connection, the socket accept() tracked is tracked no longer, whatever "
        "socket object the authenticator handed back, and a client that could not be taken over leaves no entry either (fix F12)",
        "VERIFIED too: Server._serve_client builds the connection on a channel over a stream over exactly the accepted socket, with a "
        "NEW configuration dict carrying the credentials the authenticator returned, hands exactly that connection to "
        "_handle_connection once (which calls its serve_all once) and does not touch self.clients; SocketStream(sock) / Channel(stream) "
        "are uninterpreted functions of their argument (the constructors only store it), Service._connect is a ghost event with any "
        "outcome; the registrar's unregister and the logger are dynamic objects",
        "threads, queues, poll objects, sockets and the authenticator are dynamic objects: each method call is a pair of ghost "
        "events with any outcome; Thread.join / Queue.put are not given blocking semantics",
        "forking server: only the SIGCHLD handler is under contract - it keeps calling os.waitpid(-1, WNOHANG) until the system answers "
        "`no terminated child left` (pid <= 0) or OSError, so every child of a departed client is reaped however many exits one signal "
        "delivery stands for, and re-installs itself; os.waitpid / signal.signal are model externals (ghost events)",
        "NOT covered (threads / OS, out of reach): that a shutdown makes the client observe end-of-stream promptly, descriptor "
        "accounting (contextlib.closing(sock) in the per-client finally is a no-op: the descriptor is released by the connection's "
        "teardown or by garbage collection), the forking server, accept loops under concurrent close, ThreadedServer's thread spawn",
    ],
)


PLANS["C16"] = dict(
    title="A server keeps serving good clients whatever bad clients do (partial: per-connection isolation and per-client bookkeeping)",
    contracts=ALL_CONTRACTS, specs=ALL_SPECS, table="module",
    targets=[PROTO + "__init__", "rpyc/lib/colls.py::RefCountingColl.__init__", "rpyc/lib/colls.py::WeakValueDict.__init__",
             SRV + "Server._authenticate_and_serve_client", SRV + "ThreadPoolServer._accept_method", SRV + "Server._serve_client",
             "rpyc/core/service.py::Service._connect"],
    lemmas=[], compositions=[], native_focus=[], design_ref="DESIGN.md section 4, C16",
    assumptions=COMMON_ASSUMPTIONS + [
        "PARTIAL. VERIFIED: Connection.__init__ gives every connection its OWN, newly created and empty table of lent objects, "
        "proxy cache, callback table, class cache, send queue, locks, sequence counter and configuration copy (nothing is shared "
        "with another connection; the caller's config wins over the defaults) - `its own table of exported objects, so state and "
        "references never leak from one client to another`; the per-client wrapper serves a client at most once, only after the "
        "authenticator (when there is one) accepted exactly its socket, and forgets the socket on every exit; in the thread-pool "
        "server, where a client is taken over inside the accept thread, no Exception raised while taking a client over escapes "
        "ThreadPoolServer._accept_method (so a failing client cannot end the accept loop); Server._serve_client builds the connection "
        "around exactly the accepted socket with the credentials of exactly this client and serves exactly that connection, once",
        "what a misbehaving client can SEND is covered elsewhere for every byte string: decoding never crashes (C04 / C05 safety "
        "contracts: any input decodes to a plain value or raises; corrupt compressed data raises), every decoded message is "
        "answered or ends only that one connection (C07 / C08 / C11)",
        "NOT covered (threads / processes / OS, outside sequential contracts): that the accept loop keeps running while client "
        "threads fail, that one client's thread cannot starve the others, the forking server, the thread pool's scheduling; "
        "`its own service instance`: Service._connect is verified with the service as a dynamic object - given a CLASS it calls it "
        "once, without arguments, and builds the connection around that new instance (given an instance, around it), runs on_connect "
        "once on the connection the protocol class built and returns that connection; what the service's own constructor does "
        "(a user class sharing state through class attributes) is the user's code",
    ],
)


# C19 also covers the layouts of what travels inside a packet - the message triple (kind, sequence number, payload) and the request
# pair (handler number, boxed arguments): the layout clauses of _send / _async_request / _dispatch carry C19 among their properties
PLANS["C19"]["contracts"] = ALL_CONTRACTS
PLANS["C19"]["specs"] = ALL_SPECS
PLANS["C19"]["targets"] = PLANS["C19"]["targets"] + [PROTO + n for n in ("_send", "_async_request", "_dispatch")]
PLANS["C19"]["lemmas"] = PLANS["C19"]["lemmas"] + ["frames_app", "all_fit_app"]
PLANS["C19"]["assumptions"] = PLANS["C19"]["assumptions"] + [
    "message and request layouts: Connection._send encodes exactly the triple (message kind, sequence number, payload); _async_request "
    "sends (handler number, boxed arguments) as the payload of a MSG_REQUEST; _dispatch reads the same triple back - verified under the "
    "assumptions listed for C08 (handler table and nested requests as models)",
]
