"""rpyc/lib/compat.py: trivial helpers, executed in place (inline) rather than specified"""


def register(S):
    S.contract("rpyc/lib/compat.py::BYTES_LITERAL", params={"text": "any"}, inline=True,
               note="one-line wrapper `bytes(text, 'utf8')`; inlined at call sites")
