"""rpyc/lib/compat.py: trivial helpers, executed in place (inline) rather than specified"""


def register(S):
    S.contract("rpyc/lib/compat.py::BYTES_LITERAL", params={"text": "any"}, inline=True,
               note="one-line wrapper `bytes(text, 'utf8')`; inlined at call sites")
    S.contract("rpyc/lib/compat.py::get_exc_errno", params={"exc": "any"}, inline=True,
               note="`exc.errno` if present else `exc[0]`; inlined at call sites")
