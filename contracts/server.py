"""Contracts for rpyc/utils/server.py (C17, partial): what closing a thread-pool server does to the connections it serves,
and the one-shot server's self-shutdown.  Threads, queues and poll objects are dynamic objects here: every method call on them
is a pair of ghost events (GetAttr, Call) with any outcome."""
F = "rpyc/utils/server.py::"
P17 = ["C17"]


def register(S):
    S.declare_fields("Server", logger="any", active="bool", _closed="bool", clients="dict", authenticator="val", service="any",
                     protocol_config="any", listener="any")
    S.declare_fields("ThreadPoolServer", fd_to_conn="dict", workers="vlist", polling_thread="any", _active_connection_queue="any",
                     poll_object="any")
    LOG = {"self.logger.info": "log", "self.logger.debug": "log", "self.logger.exception": "log", "self.logger.warning": "log"}
    CONNS_OK = "conns_truthy(self.fd_to_conn)"
    # ---- one connection is dropped: forgotten and closed --------------------------------------------------------------------
    CLOSED_IT = ("n_ev('GetAttr') == 1 and same(ev_val('GetAttr', 0, 1), old(self.fd_to_conn[fd])) and ev_val('GetAttr', 0, 2) == 'close' and "
                 "n_calls() == 1 and same(call_fn(0), ev_val('GetAttr', 0, 3)) and call_args(0) == nil() and n_events() == 2")
    S.contract(F + "ThreadPoolServer._drop_connection", params={"self": "obj:ThreadPoolServer", "fd": "val"}, abstract_calls=LOG,
               requires=[CONNS_OK], effects={"normal": (0, 1), "raise": (0, 1)},
               ensures={"forgotten": ("not haskey(self.fd_to_conn, fd) and unchanged_except(self.fd_to_conn, fd)", P17),
                        "closed_exactly_that_connection": (
                            "(%s) if old(haskey(self.fd_to_conn, fd)) else n_events() == 0" % CLOSED_IT, P17),
                        "table_stays_well_formed": (CONNS_OK, P17)},
               raises={"BaseException": {"props": P17, "modifies": ["self.fd_to_conn"], "state": [
                   "not haskey(self.fd_to_conn, fd) and unchanged_except(self.fd_to_conn, fd)", CONNS_OK]}},
               modifies=["self.fd_to_conn"])
    # ---- closing the base server: interface contract --------------------------------------------------------------------------
    S.declare_fields("Server", auto_register="val", registrar="any", port="val")
    LISTENER_DOWN = ("shutdown_attempted_on(self.listener) and called_and_returned_attr(self.listener, 'close')")
    S.contract(F + "Server.close", params={"self": "obj:Server"}, abstract_calls=LOG, merge_iteration=True,
               dispatch=[("self._closed", "again"), (None, "first")],
               behaviours={
                   "again": dict(requires=["self._closed"], modifies=[], raises={},
                                 ensures={"closing_twice_is_harmless": ("n_events() == 0 and self._closed", P17)}),
                   "first": dict(requires=["not self._closed"], effects={"normal": (0, 9), "raise": (0, 9)},
                                 ensures={"closed": ("self._closed and not self.active and dict_empty(self.clients)", P17),
                                          "listener_shut_down_and_closed": (LISTENER_DOWN, P17),
                                          "every_tracked_client_visited": ("n_ev('Loop') == 1", P17)},
                                 # a failing shutdown (a client that is already gone) must not stop the server from closing the
                                 # others: the only Exceptions that may escape come from a close() call (or from the LISTENER's
                                 # shutdown raising something that is not an OSError - impossible for a real socket)
                                 raises={"BaseException": {"props": P17, "state": [
                                     "self._closed and not self.active",
                                     "implies(exc_is(exc, 'Exception'), raised_by_attr('close') or (raised_by_attr('shutdown') and n_ev('Loop') == 0))"],
                                     "modifies": ["self._closed", "self.active", "self.clients"]}},
                                 modifies=["self._closed", "self.active", "self.clients"]),
               },
               loops={0: {"rest": "todo", "modifies": [], "props": P17, "invariant": ["self._closed and not self.active"],
                          # each tracked client socket: a shutdown is attempted (its failure ignored), then it is closed
                          "body_events": ["shutdown_attempted_on(item) and called_and_returned_attr(item, 'close')"]}})
    # ---- closing a thread-pool server terminates every connection it still serves ---------------------------------------------
    S.contract(F + "ThreadPoolServer.close", params={"self": "obj:ThreadPoolServer"}, merge_iteration=True,
               requires=[CONNS_OK, "implies(self._closed, not self.active)"], effects={"normal": (0, 4), "raise": (0, 4)},
               ensures={"base_server_closed": ("self._closed and not self.active", P17),
                        "no_connection_left": ("dict_empty(self.fd_to_conn)", P17)},
               raises={"BaseException": {"props": P17, "modifies": ["**"]}}, modifies=["**"],
               loops={0: {"modifies": [], "props": P17, "invariant": [],      # one None per worker wakes it from its blocking get
                          "body_events": ["n_events() == 2 and n_calls() == 1 and ev_val('GetAttr', 0, 2) == 'put' and "
                                          "call_args(0) == cons(val(None), nil())"]},
                      1: {"rest": "ws", "modifies": [], "props": P17, "invariant": [],
                          "body_events": ["n_events() == 2 and n_calls() == 1 and same(ev_val('GetAttr', 0, 1), item) and "
                                          "ev_val('GetAttr', 0, 2) == 'join'"]},
                      2: {"rest": "todo", "modifies": ["self.fd_to_conn"], "props": P17,
                          "invariant": ["all_keys_in(self.fd_to_conn, todo)", CONNS_OK, "self._closed and not self.active"],
                          "body_events": ["n_callees('_drop_connection') == 1 and n_events() == 1 and "
                                          "same(callee_arg('_drop_connection', 0, 'fd'), item)"]}})

    # ---- one client, from authentication to departure: whatever happens, the server forgets the socket ---------------------
    # the transport objects built around the accepted socket are uninterpreted functions of it (stream_of, channel_of: the
    # constructors only store their argument); building the connection is the service's business: a ghost event
    # Connect(channel, config, connection) with any outcome
    S.external("new_stream", params={"self_arg": "any", "sock": "val"}, result="val", note="SocketStream(sock): stores the socket",
               outcomes=[{"label": "ok", "assume": ["same(result, stream_of(sock))"]}])
    S.external("new_channel", params={"self_arg": "any", "stream": "val"}, result="val", note="Channel(stream): stores the stream",
               outcomes=[{"label": "ok", "assume": ["same(result, channel_of(stream))"]}])
    S.external("service_connect", params={"self_arg": "any", "channel": "val", "config": "any"}, result="val",
               note="Service._connect(channel, config): builds and returns the connection (on_connect hooks run; may raise anything)",
               outcomes=[{"label": "ok", "events": [("Connect", "channel", "config", "result")]},
                         {"label": "fails", "raise": "BaseException"}])
    S.contract(F + "Server._handle_connection", params={"self": "obj:Server", "conn": "val"}, dynamic_errors=True,
               effects={"normal": (0, 2), "raise": (0, 2)},
               ensures={"serves_it": ("n_ev('GetAttr') == 1 and same(ev_val('GetAttr', 0, 1), conn) and ev_val('GetAttr', 0, 2) == 'serve_all' and "
                                      "n_calls() == 1 and same(call_fn(0), ev_val('GetAttr', 0, 3)) and call_args(0) == nil() and n_events() == 2", P17)},
               raises={"BaseException": {"props": P17, "modifies": []}}, modifies=[])
    SERVED = ("implies(n_callees('_handle_connection') == 1, n_ev('Connect') == 1 and "
              "same(callee_arg('_handle_connection', 0, 'conn'), ev_val('Connect', 0, 3)) and "
              "same(ev_val('Connect', 0, 1), channel_of(stream_of(sock))) and "
              "haskey(ev_obj('Connect', 0, 2), 'credentials') and same(ev_obj('Connect', 0, 2)['credentials'], credentials))")
    S.contract(F + "Server._serve_client", params={"self": "obj:Server", "sock": "val", "credentials": "val"}, dynamic_errors=True,
               abstract_calls=dict(LOG, **{"self.service._connect": "service_connect", "Channel": "new_channel", "SocketStream": "new_stream"}),
               effects={"normal": (0, 9), "raise": (0, 9)},
               note="builds the connection for exactly this socket (with the credentials the authenticator returned) and serves it until "
                    "it ends (Connection.serve_all: C11); may raise anything; does not touch self.clients",
               ensures={"serves_the_connection_built_on_this_socket": (
                   "n_callees('_handle_connection') == 1 and n_ev('Connect') == 1 and " + SERVED[len("implies(n_callees('_handle_connection') == 1, n_ev('Connect') == 1 and "):-1], P17 + ["C16"])},
               raises={"BaseException": {"props": P17 + ["C16"], "modifies": [], "state": ["n_callees('_handle_connection') <= 1", SERVED]}},
               modifies=[])
    S.external("closing_noop", params={"self_arg": "any", "x": "val"}, result="val",
               note="contextlib.closing(x) used as an expression statement: creates a wrapper and discards it - NO effect (the socket is "
                    "closed by the connection's own teardown, or by garbage collection when authentication failed)",
               outcomes=[{"label": "ok"}])
    S.contract(F + "Server._authenticate_and_serve_client", params={"self": "obj:Server", "sock": "val"}, dynamic_errors=True,
               abstract_calls=dict(LOG, closing="closing_noop"), effects={"normal": (0, 9), "raise": (0, 9)},
               ensures={"departed_client_is_forgotten": ("not haskey(self.clients, sock) and unchanged_except(self.clients, sock)", P17 + ["C16"]),
                        "served_at_most_once": ("n_callees('_serve_client') <= 1", P17 + ["C16"]),
                        # a client is served only after the authenticator - when there is one - accepted exactly this socket
                        "served_only_when_authenticated": ("implies(n_callees('_serve_client') == 1 and truthy(self.authenticator), called_and_returned(self.authenticator, cons(sock, nil())))", P17 + ["C16"]),
                        "shutdown_attempted": ("shutdown_attempted_on(sock)", P17)},
               # (a KeyboardInterrupt / SystemExit raised BY the shutdown attempt itself escapes before the socket is forgotten:
               # only Exceptions are swallowed there)
               raises={"BaseException": {"props": P17 + ["C16"], "modifies": ["self.clients"], "state": [
                   "implies(exc_is(exc, 'Exception'), not haskey(self.clients, sock))", "unchanged_except(self.clients, sock)",
                   "n_callees('_serve_client') <= 1", "shutdown_attempted_on(sock)", "implies(n_callees('_serve_client') == 1 and truthy(self.authenticator), called_and_returned(self.authenticator, cons(sock, nil())))"]}},
               modifies=["self.clients"])
    # ---- a one-shot server serves one client and then shuts itself down, whatever happened -------------------------------------
    S.contract(F + "OneShotServer._accept_method", params={"self": "obj:OneShotServer", "sock": "val"},
               requires=["implies(self._closed, not self.active)"],
               ensures={"serves_then_closes": ("n_callees('_authenticate_and_serve_client') == 1 and n_callees('close') == 1 and n_events() == 2 and "
                                               "same(callee_arg('_authenticate_and_serve_client', 0, 'sock'), sock)", P17),
                        "closed": ("self._closed and not self.active", P17)},
               raises={"BaseException": {"props": P17, "modifies": ["self._closed", "self.active", "self.clients"], "state": [
                   "n_callees('_authenticate_and_serve_client') == 1 and n_callees('close') == 1", "self._closed and not self.active"]}},
               modifies=["self._closed", "self.active", "self.clients"])

    S.external("log_format", params={"self_arg": "any", "x": "val"}, result="str", note="a log message built with str.format", outcomes=[{"label": "ok"}])
    # ---- the pool takes a client over: from then on the raw accepted socket is not tracked by the base server any more ----------
    S.contract(F + "ThreadPoolServer._authenticate_and_build_connection", params={"self": "obj:ThreadPoolServer", "sock": "val"},
               result="val", dynamic_errors=True, effects={"normal": (0, 9), "raise": (0, 9)},
               abstract_calls=dict(LOG, **{"self.service._connect": "service_connect", "Channel": "new_channel", "SocketStream": "new_stream",
                                           "'{}'.format": "log_format"}),
               note="authenticates (the authenticator may hand back ANOTHER socket object) and wraps the socket in a connection: returns "
                    "the pair (socket, connection) or raises",
               ensures={"a_pair": ("is_pair(result) and istuple(result)", P17),
                        # the connection is built around the socket that is returned with it, and it is the one the service built
                        "the_connection_of_the_returned_socket": (
                            "n_ev('Connect') == 1 and same(nth_item(result, 1), ev_val('Connect', 0, 3)) and "
                            "same(ev_val('Connect', 0, 1), channel_of(stream_of(nth_item(result, 0))))", P17 + ["C16"]),
                        # without an authenticator the socket is the accepted one; with one, it was asked about exactly this socket
                        # ... and the socket it handed back (an SSL authenticator wraps it) is the one the connection uses
                        "authenticated": ("(called_and_returned(self.authenticator, cons(sock, nil())) and same(call_fn(0), self.authenticator) and "
                                          "(same(nth_item(result, 0), nth_item(call_result(0), 0)) or (n_ops() == 1 and op_name(0) == 'unpack' and "
                                          "same(op_target(0), call_result(0)) and same(nth_item(result, 0), nth_item(op_result(0), 0))))) "
                                          "if truthy(self.authenticator) else "
                                          "same(nth_item(result, 0), sock)", P17 + ["C16"])},
               raises={"BaseException": {"props": P17, "modifies": []}}, modifies=[])
    S.contract(F + "ThreadPoolServer._add_inactive_connection", params={"self": "obj:ThreadPoolServer", "fd": "val"}, dynamic_errors=True,
               effects={"normal": (1, 1), "raise": (0, 1)},
               note="registers exactly this descriptor with the poll object (for read / error / hang-up events)",
               ensures={"registers_this_descriptor": (
                   "n_events() == 2 and n_ev('GetAttr') == 1 and same(ev_val('GetAttr', 0, 1), self.poll_object) and "
                   "ev_val('GetAttr', 0, 2) == 'register' and n_calls() == 1 and same(call_fn(0), ev_val('GetAttr', 0, 3)) and "
                   "call_args(0) == cons(fd, cons('reh', nil()))", P17)},
               raises={"BaseException": {"props": P17, "modifies": []}}, modifies=[])
    S.contract(F + "ThreadPoolServer._accept_method", params={"self": "obj:ThreadPoolServer", "sock": "val"}, dynamic_errors=True,
               abstract_calls=dict(LOG, **{"'Failed to serve client for {}, caught exception'.format": "log_format"}),
               requires=[CONNS_OK], effects={"normal": (0, 9), "raise": (0, 9)},
               ensures={
                   # once the pool owns the connection, the socket that accept() put into self.clients is tracked there no longer
                   # (whatever socket object the authenticator handed back)
                   "accepted_socket_no_longer_tracked_by_the_base_server": (
                       "implies(n_callees('_add_inactive_connection') == 1 and n_attr_reads('close') == 0, not haskey(self.clients, sock))", P17),
                   # ... and a client that could not be taken over (authentication refused, any failure while building the connection)
                   # leaves no entry behind either
                   "no_entry_is_kept_for_a_rejected_client": ("not haskey(self.clients, sock)", P17)},
               # a client that fails (authentication refused, a reset before getpeername, anything) must not take the accept loop
               # down: no Exception escapes (C16) - other than one raised by closing the failed client's socket itself
               raises={"BaseException": {"props": P17 + ["C16"], "modifies": ["self.fd_to_conn", "self.clients"],
                                         "state": ["implies(exc_is(exc, 'Exception'), raised_by_attr('close'))"]}},
               modifies=["self.fd_to_conn", "self.clients"])

    # ---- the forking server's SIGCHLD handler: drains EVERY terminated child (signals do not queue: one delivery may stand for
    # several children), then re-installs itself.  os.waitpid / signal.signal are model externals with ghost events ---------------
    S.external("os_waitpid", params={"self_arg": "any", "pid": "val", "options": "val"}, result="val",
               note="os.waitpid(-1, WNOHANG): a pair (pid, status) - pid > 0: that child was reaped, 0: children exist but none has "
                    "terminated - or OSError (ECHILD: no children); ghost event Waitpid(pid asked, pid answered)",
               outcomes=[{"label": "reaped one", "assume": ["is_pair(result) and istuple(result) and is_int(nth_item(result, 0)) and as_int(nth_item(result, 0)) > 0"],
                          "events": [("Waitpid", "pid", "nth_item(result, 0)")]},
                         {"label": "none left", "assume": ["is_pair(result) and istuple(result) and is_int(nth_item(result, 0)) and as_int(nth_item(result, 0)) <= 0"],
                          "events": [("Waitpid", "pid", "nth_item(result, 0)")]},
                         {"label": "fails", "raise": "OSError", "events": [("Waitpid", "pid", "'raise'")]}])
    S.external("signal_signal", params={"self_arg": "any", "signum": "val", "handler": "val"}, result="val",
               note="signal.signal: ghost event Signal(signum, handler); returns the previous handler",
               outcomes=[{"label": "ok", "events": [("Signal", "signum", "handler")]}])
    # stated over the LAST Waitpid event of the trace (with the loop cut by its contract that is the event of the last, incomplete
    # iteration; with the loop unrolled - the triage of a restructured loop - it is the last one overall)
    LASTW = "ev_val('Waitpid', n_ev('Waitpid') - 1, %d)"
    DRAINED = ("n_ev('Waitpid') >= 1 and %s == -1 and (%s == 'raise' or (is_int(%s) and as_int(%s) <= 0))" % (LASTW % 1, LASTW % 2, LASTW % 2, LASTW % 2))
    S.contract(F + "ForkingServer._handle_sigchld", params={"cls": "val", "signum": "val", "unused": "val"}, self_name="cls",
               dynamic_errors=True, effects={"normal": (0, 0), "raise": (0, 0)},
               abstract_calls={"os.waitpid": "os_waitpid", "signal.signal": "signal_signal"},
               loops={0: {"invariant": [], "local_trace": True, "props": P17, "unrollable": True,
                          # an iteration that goes round again reaped exactly one child (any wildcard wait)
                          "body_events": ["n_events() == 1 and n_ev('Waitpid') == 1 and ev_val('Waitpid', 0, 1) == -1 and "
                                          "is_int(ev_val('Waitpid', 0, 2)) and as_int(ev_val('Waitpid', 0, 2)) > 0"]}},
               ensures={
                   # the handler stops asking only when the system said `no terminated child left` (or no children at all): the
                   # events after the loop summary are those of the last, incomplete iteration
                   "reaps_until_none_is_left": (DRAINED, P17),
                   "reinstalls_itself": ("n_ev('Signal') == 1 and n_ev('GetAttr') == 1 and same(ev_val('GetAttr', 0, 1), cls) and "
                                         "ev_val('GetAttr', 0, 2) == '_handle_sigchld' and same(ev_val('Signal', 0, 2), ev_val('GetAttr', 0, 3))", P17)},
               raises={"BaseException": {"props": P17, "modifies": []}}, modifies=[])
