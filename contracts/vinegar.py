"""Contracts for rpyc/core/vinegar.py (C09, C07): dump normalises an exception into a plain record and discloses the
traceback / version text only when told to; load rebuilds an exception object from ANY plain payload without importing
or constructing anything the configuration does not allow."""
F = "rpyc/core/vinegar.py::"
P9 = ["C09"]


def register(S):
    register_load(S)
    S.external("format_exception", params={"self_arg": "any", "typ": "val", "val": "val", "tb": "val"}, result="val",
               note="traceback.format_exception: one ghost event TbFormat; returns a list of texts (it renders the exception, "
                    "i.e. may run its __str__; assumed not to raise)",
               outcomes=[{"label": "ok", "events": [("TbFormat", "val")]}])
    S.external("join_text", params={"self_arg": "any", "parts": "val"}, result="str",
               note="''.join(list of texts): some text", outcomes=[{"label": "ok"}])

    DENIED_TB = "'<traceback denied>'"
    REC = "not same(result, val(EXC_STOP_ITERATION)) and not isstr(typ)"        # a genuine exception record is produced
    S.contract(F + "dump",
               params={"typ": "val", "val": "val", "tb": "val", "include_local_traceback": "val", "include_local_version": "val"},
               result="val", abstract_calls={"traceback.format_exception": "format_exception", "''.join": "join_text"},
               unfold_depth=3,
               exit_hints=["plain_list(items(result))", "plain_list(items(head(items(result))))", "plain(head(tail(items(result))))",
                           "plain(head(tail(tail(items(result)))))", "plain(head(tail(tail(tail(items(result))))))",
                           "plain(head(tail(items(head(items(result))))))"],
               # type invariant of the input (what sys.exc_info() yields): a class's __module__ / __name__ are texts
               requires=["implies(not isstr(typ), isstr(meta_attr(typ, '__module__')) and isstr(meta_attr(typ, '__name__')))"],
               ensures={
                   # the fast path for StopIteration may be taken only when there are no arguments to lose (the statement: `with
                   # the same immutable arguments`): the short constant stands for an argument-less StopIteration
                   "stop_iteration_constant_only_without_arguments": (
                       "implies(same(result, val(EXC_STOP_ITERATION)), typ is StopIteration and n_ev('GetAttr') == 1 and "
                       "same(ev_val('GetAttr', 0, 1), val) and ev_val('GetAttr', 0, 2) == 'args' and "
                       "(ev_raised('GetAttr', 0) or not truthy(ev_val('GetAttr', 0, 3))))", P9),
                   "the_record_is_plain": ("plain(result)", P9 + ["C08", "C01"]),
                   # the attribute names are those of the exception OBJECT (instance attributes included)
                   "names_come_from_the_exception_object": (
                       "implies(%s, n_ops() >= 1 and op_name(0) == 'dir' and same(op_target(0), val))" % REC, P9),
                   "names_the_class": ("implies(%s, nth_item(result, 0) == pair(meta_attr(typ, '__module__'), meta_attr(typ, '__name__')))" % REC, P9),
                   "traceback_only_when_allowed": (
                       "implies(%s, n_ev('TbFormat') == (1 if truthy(include_local_traceback) else 0) and "
                       "implies(not truthy(include_local_traceback), nth_item(result, 3) == %s))" % (REC, DENIED_TB), P9 + ["C07"]),
                   "version_only_when_allowed": (
                       "implies(%s, last(items(nth_item(result, 2))) == pair('_remote_version', "
                       "VERSION_STRING if truthy(include_local_version) else '<version denied>'))" % REC, P9 + ["C07"]),
               },
               raises={"BaseException": {"props": P9}}, modifies=[],
               locals={"attrs": "vlist", "args": "vlist"},
               getattr_assume={"args": ("istuple(result)", "BaseException.args is a tuple-typed slot: reading it yields a tuple")},
               append_hints=["snoc_is_app(acc, x)", "plain_snoc(acc, x)", "last_snoc(acc, x)", "plain(x)", "plain_list(items(x))"],
               loops={
                   # over the names dir(val) lists
                   0: {"rest": "names", "modifies": [], "props": P9,
                       "invariant": ["all_str(names)", "plain_list(attrs.items)", "plain_list(args.items)"],
                       "body_events": [
                           # the arguments: val.args is read once, then the inner loop
                           "implies(name == 'args', n_ev('GetAttr') == 1 and same(ev_val('GetAttr', 0, 1), val) and "
                           "ev_val('GetAttr', 0, 2) == 'args' and n_events() == 1 + n_ev('Loop') and n_ev('Loop') <= 1)",
                           # private names and the two ignored ones are never read
                           "implies(name != 'args' and (startswith(as_str(name), '_') or name == 'with_traceback' or name == '_remote_tb'), "
                           "n_events() == 0)",
                           # a public data attribute: read once from exactly this exception object under exactly this name;
                           # a value that is not plain is replaced by repr() of exactly that value
                           "implies(name != 'args' and not startswith(as_str(name), '_') and name != 'with_traceback', "
                           "n_ev('GetAttr') == 1 and same(ev_val('GetAttr', 0, 1), val) and same(ev_val('GetAttr', 0, 2), name) and "
                           "n_events() == 1 + n_ops() and n_ops() <= 1 and "
                           "implies(n_ops() == 1, op_name(0) == 'repr' and same(op_target(0), ev_val('GetAttr', 0, 3))))"]},
                   # over val.args
                   1: {"rest": "todo", "modifies": [], "props": P9,
                       "invariant": ["plain_list(args.items)", "plain_list(attrs.items)", "all_str(names)"],
                       "body_events": ["n_events() == (0 if plain(a) else 1)",
                                       "implies(not plain(a), n_ops() == 1 and op_name(0) == 'repr' and same(op_target(0), a))"]},
               })


def register_load(S):
    """vinegar.load (C09 rebuild, C07: no import / no constructor / no class the configuration does not allow)"""
    S.external("do_import", params={"self_arg": "any", "name": "val", "g": "any", "l": "any", "fromlist": "any"}, result="val",
               note="__import__: one ghost event Import(name); arbitrary module code runs; may raise; the set of imported modules may change",
               outcomes=[{"label": "ok", "events": [("Import", "name")], "modifies": ["$sysmodules"]},
                         {"label": "fails", "raise": "Exception", "events": [("Import", "name")], "modifies": ["$sysmodules"]},
                         {"label": "interrupted", "raise": "BaseException", "events": [("Import", "name")], "modifies": ["$sysmodules"]}])
    S.external("make_class", params={"self_arg": "any", "name": "val", "bases": "any", "ns": "any"}, result="val",
               note="type(name, (GenericException,), ns): a NEW class, subclass of vinegar.GenericException, named `name` (ghost event MakeClass)",
               outcomes=[{"label": "ok", "events": [("MakeClass", "name")],
                          "assume": ["is_generic_exception_class(result)", "same(class_name(result), name)"]}])
    S.external("new_instance", params={"self_arg": "any", "cls": "val"}, result="val",
               note="cls.__new__(cls): allocates an instance WITHOUT running __init__ (ghost event New); raises TypeError for the classes "
                    "whose __new__ demands arguments (enumerated separately: finite check builtin_exceptions_instantiable)",
               outcomes=[{"label": "ok", "events": [("New", "cls")], "assume": ["same(class_of_instance(result), cls)"]},
                         {"label": "fails", "raise": "TypeError", "events": [("New", "cls")]}])
    S.contract(F + "_get_exception_class", params={"cls": "val"}, result="val", trusted=True, effect_free=True,
               note="ASSUMED (class synthesis is outside the subset; bounded stand-in): a subclass of cls with the same __name__ and "
                    "__module__ whose str() appends the remote traceback; cached per class",
               ensures={"derived": ("same(derived_from(result), cls) and "
                                    "implies(is_exception_class(cls), is_exception_class(result))", ["C09"])},
               raises={}, modifies=[])

    GENUINE = ("not (val == EXC_STOP_ITERATION) and not isstr(val)")
    ONLY_SPLIT = ("n_calls() <= 1 and implies(n_calls() == 1, n_ev('GetAttr') >= 1 and "
                  "same(call_fn(0), ev_val('GetAttr', n_ev('GetAttr') - 1, 3)) and ev_val('GetAttr', n_ev('GetAttr') - 1, 2) == 'split')")
    ENS = {
        "stop_iteration_shortcut": ("implies(val == EXC_STOP_ITERATION, result is StopIteration and n_events() == 0)", ["C09"]),
        # C07 / C09: nothing is imported unless the receiver's configuration says so
        "no_import_unless_configured": ("implies(not truthy(import_custom_exceptions), n_ev('Import') == 0)", ["C09", "C07"]),
        "at_most_one_import": ("n_ev('Import') <= 1", ["C09", "C07"]),
        # no constructor runs: the instance is allocated by __new__, exactly once; the only other thing that may be called is
        # the .split method of the record's version text
        "allocated_without_constructor": ("implies(%s, n_ev('New') == 1) and %s" % (GENUINE, ONLY_SPLIT), ["C09", "C07"]),
        # the class: a custom class only if the configuration allows instantiating custom exceptions; otherwise a
        # built-in exception class or the generic stand-in named after the original
        "cache_stays_well_formed": ("generic_cache_ok(_generic_exceptions_cache)", ["C09"]),
        "class_choice_is_gated": (
            "implies(n_ev('New') == 1, class_ok(derived_from(ev_val('New', 0, 1)), nth_item(nth_item(val, 0), 0), "
            "nth_item(nth_item(val, 0), 1), truthy(instantiate_custom_exceptions)))", ["C09", "C07"]),
    }
    RAISES = {"BaseException": {"props": ["C09", "C07"], "state": [
        "implies(not truthy(import_custom_exceptions), n_ev('Import') == 0)", ONLY_SPLIT, "n_ev('New') <= 1",
        "generic_cache_ok(_generic_exceptions_cache)"],
        "modifies": ["_generic_exceptions_cache", "$sysmodules"]}}
    T, Fa = "const:TRUE", "const:FALSE"
    flags = lambda a, b: {"import_custom_exceptions": a, "instantiate_custom_exceptions": b}
    BEH = {}
    for bname, (a, b) in {"closed": (Fa, Fa), "custom_classes": (Fa, T), "import_only": (T, Fa), "open": (T, T)}.items():
        BEH[bname] = dict(params=flags(a, b), thorough_only=bname in ("custom_classes", "import_only"), requires=["plain(val)", "generic_cache_ok(_generic_exceptions_cache)"], ensures=ENS, raises=RAISES,
                          effects={"normal": (0, 1), "raise": (0, 1)},
                          modifies=["_generic_exceptions_cache", "$sysmodules"])
    S.contract(F + "load",
               params={"val": "val", "import_custom_exceptions": "bool", "instantiate_custom_exceptions": "bool",
                       "instantiate_oldstyle_exceptions": "val"},
               result="val", free={"_generic_exceptions_cache": "global:dict"}, merge_iteration=True, dynamic_errors=True,
               abstract_calls={"__import__": "do_import", "ClassType": "make_class", "cls.__new__": "new_instance"},
               # the four settings of the two switches, one behaviour each (`closed` is the default configuration)
               dispatch=[("not import_custom_exceptions and not instantiate_custom_exceptions", "closed"),
                         ("not import_custom_exceptions and instantiate_custom_exceptions", "custom_classes"),
                         ("import_custom_exceptions and not instantiate_custom_exceptions", "import_only"), (None, "open")],
               behaviours=BEH,
               loops={0: {"rest": "todo", "modifies": [], "props": ["C09"],
                          "invariant": ["plain_list(todo)"],
                          "body_events": ["n_events() == n_ev('SetAttr') and n_ev('SetAttr') <= 1",
                                          "implies(n_ev('SetAttr') == 1, same(ev_val('SetAttr', 0, 1), exc))"]}})
