"""Contracts for rpyc/utils/classic.py: upload / download (C20) against an abstract file model.
A file object (local, or a proxy of a remote one - same interface, C02) has ghost fields: `content` (what read() yields from
position 0), `pos` (read position), `written` (what was written so far), `closed`."""
F = "rpyc/utils/classic.py::"
P20 = ["C20"]


def register(S):
    S.declare_fields("File", content="bytes", pos="int", written="bytes", closed="bool", path="val", mode="val", remote="bool")
    for name, remote in (("file_open", False), ("file_open_remote", True)):
        S.external(name, params={"self_arg": "any", "path": "val", "mode": "val"}, result="obj:File",
                   note="open(path, mode) %s: a NEW file object at position 0 with nothing written yet (ghost event Open); may raise OSError"
                        % ("on the peer (a proxy of the peer's file object: same interface, C02)" if remote else "locally"),
                   outcomes=[{"label": "ok", "events": [("Open", "result", "path", "mode", "TRUE" if remote else "FALSE")],
                              "assume": ["result.pos == 0", "result.written == empty()", "not result.closed",
                                         "same(result.path, path)", "same(result.mode, mode)", "result.remote == %s" % remote]},
                             {"label": "fails", "raise": "OSError"}])
    S.external("File.read", params={"self": "obj:File", "k": "int"}, result="bytes", requires=["k >= 1"],
               note="read(k) on a regular file: exactly the next min(k, remaining) bytes (short only at end of file); may raise OSError",
               outcomes=[{"label": "ok", "modifies": ["self.pos"],
                          "assume": ["self.pos == old(self.pos) + len(result)", "result == sub(self.content, old(self.pos), len(result))",
                                     "len(result) == (k if len(self.content) - old(self.pos) >= k else len(self.content) - old(self.pos))",
                                     "old(self.pos) <= len(self.content)"]},
                         {"label": "fails", "raise": "OSError"}])
    S.external("File.write", params={"self": "obj:File", "data": "bytes"}, result="int",
               note="write(b) on a regular file opened for writing: all of b is appended; may raise OSError having written nothing",
               outcomes=[{"label": "ok", "modifies": ["self.written"], "assume": ["self.written == old(self.written) + data", "result == len(data)"]},
                         {"label": "fails", "raise": "OSError"}])

    def copy(fname, src, dst, src_remote, src_path, dst_path):
        """the two copy loops: what is written is exactly what the source holds, into a file opened for writing at the
        destination path; both files are closed on every exit"""
        k_src, k_dst = (0, 1)                      # the source is opened first in both functions
        SRC, DST = "ev_arg('Open', 0, 1)", "ev_arg('Open', 1, 1)"
        S.contract(F + fname, params={"conn": "val", "localpath": "val", "remotepath": "val", "chunk_size": "int"},
                   abstract_calls={"open": "file_open", "conn.builtin.open": "file_open_remote"},
                   requires=["chunk_size >= 1"],
                   ensures={
                       "opened_the_right_files": (
                           "n_ev('Open') == 2 and same(ev_val('Open', 0, 2), %s) and ev_val('Open', 0, 3) == 'rb' and "
                           "ev_arg('Open', 0, 4) == %s and same(ev_val('Open', 1, 2), %s) and ev_val('Open', 1, 3) == 'wb' and "
                           "ev_arg('Open', 1, 4) == %s" % (src_path, src_remote, dst_path, not src_remote), P20),
                       "byte_for_byte": ("%s.written == %s.content and %s.pos == len(%s.content)" % (DST, SRC, SRC, SRC), P20),
                       "both_closed": ("%s.closed and %s.closed" % (SRC, DST), P20)},
                   raises={"OSError": {"props": P20, "modifies": ["**"], "state": [
                       "implies(n_ev('Open') >= 1, %s.closed)" % SRC, "implies(n_ev('Open') == 2, %s.closed)" % DST]}},
                   modifies=["**"],
                   loops={0: {"modifies": ["%s.pos" % src, "%s.written" % dst], "props": P20, "havoc": {"buf": "bytes"},
                              "invariant": ["%s.pos <= len(%s.content)" % (src, src),
                                            "%s.written == sub(%s.content, 0, %s.pos)" % (dst, src, src),
                                            "not lf.closed and not rf.closed"]}})
    copy("upload_file", "lf", "rf", False, "localpath", "remotepath")
    copy("download_file", "rf", "lf", True, "remotepath", "localpath")


    # ---- directory level: an abstract file system (uninterpreted: which paths are directories / files, what a directory lists,
    # how names join), one model per side -------------------------------------------------------------------------------------
    for side, remote in (("fs", "FALSE"), ("remote", "TRUE")):
        fail = [] if side == "fs" else [{"label": "fails", "raise": "BaseException"}]
        S.external("%s_isdir" % side, params={"self_arg": "any", "path": "val"}, result="bool",
                   note="os.path.isdir on %s: the uninterpreted predicate fs_is_dir" % ("the peer" if remote == "TRUE" else "this side"),
                   outcomes=[{"label": "ok", "assume": ["result == fs_is_dir(path, %s)" % remote]}] + fail)
        S.external("%s_isfile" % side, params={"self_arg": "any", "path": "val"}, result="bool",
                   note="os.path.isfile: the uninterpreted predicate fs_is_file",
                   outcomes=[{"label": "ok", "assume": ["result == fs_is_file(path, %s)" % remote]}] + fail)
        S.external("%s_listdir" % side, params={"self_arg": "any", "path": "val"}, result="val",
                   note="os.listdir: the names the directory holds (a list of texts, modelled as the tuple of its items); may raise OSError",
                   outcomes=[{"label": "ok", "assume": ["same(result, fs_entries(path, %s))" % remote, "istuple(result)", "all_str(items(result))"]},
                             {"label": "fails", "raise": "OSError"}] + fail)
        S.external("%s_join" % side, params={"self_arg": "any", "a": "val", "b": "val"}, result="val",
                   note="os.path.join: the uninterpreted function path_join",
                   outcomes=[{"label": "ok", "assume": ["same(result, path_join(a, b, %s))" % remote]}] + fail)
        S.external("%s_makedirs" % side, params={"self_arg": "any", "path": "val"}, result="none",
                   note="os.makedirs: ghost event Mkdir(path, side); may raise OSError",
                   outcomes=[{"label": "ok", "events": [("Mkdir", "path", remote)]}, {"label": "fails", "raise": "OSError"}] + fail)

    def tree(fname, dname, file_fn, src_remote, srcp, dstp):
        """upload / download: a directory goes to the directory function, a file to the copy loop, anything else is refused (or
        skipped when ignore_invalid); and the directory function: the destination directory exists afterwards, every entry the
        filter accepts is transferred under the same name, every entry it rejects is not touched, the filter is asked once"""
        src_side, dst_side = ("remote", "fs") if src_remote else ("fs", "remote")
        SR, DR = ("TRUE", "FALSE") if src_remote else ("FALSE", "TRUE")
        abstract = {"os.path.isdir": "fs_isdir", "os.path.isfile": "fs_isfile", "os.listdir": "fs_listdir", "os.path.join": "fs_join",
                    "os.makedirs": "fs_makedirs", "conn.modules.os.path.isdir": "remote_isdir", "conn.modules.os.path.isfile": "remote_isfile",
                    "conn.modules.os.listdir": "remote_listdir", "conn.modules.os.path.join": "remote_join",
                    "conn.modules.os.makedirs": "remote_makedirs"}
        params = {"conn": "val", "localpath": "val", "remotepath": "val", "filter": "val", "ignore_invalid": "val", "chunk_size": "int"}
        same_args = lambda callee: ("same(callee_arg('%s', 0, 'conn'), conn) and same(callee_arg('%s', 0, 'localpath'), localpath) and "
                                    "same(callee_arg('%s', 0, 'remotepath'), remotepath) and callee_arg('%s', 0, 'chunk_size') == chunk_size"
                                    % ((callee,) * 4))
        S.contract(F + fname, params=params, abstract_calls=abstract, requires=["chunk_size >= 1"],
                   ensures={
                       "a_directory_goes_to_the_directory_function": (
                           "implies(fs_is_dir(%s, %s), n_callees('%s') == 1 and n_events() == 1 and %s and same(callee_arg('%s', 0, 'filter'), filter))"
                           % (srcp, SR, dname, same_args(dname), dname), P20),
                       "a_file_goes_to_the_copy_loop": (
                           "implies(not fs_is_dir(%s, %s) and fs_is_file(%s, %s), n_callees('%s') == 1 and n_events() == 1 and %s)"
                           % (srcp, SR, srcp, SR, file_fn, same_args(file_fn)), P20),
                       "anything_else_is_skipped_only_if_told_to": (
                           "implies(not fs_is_dir(%s, %s) and not fs_is_file(%s, %s), n_events() == 0 and truthy(ignore_invalid))"
                           % (srcp, SR, srcp, SR), P20)},
                   raises={"ValueError": {"props": P20, "modifies": ["**"]}, "BaseException": {"props": P20, "modifies": ["**"]}}, modifies=["**"])
        dparams = {"conn": "val", "localpath": "val", "remotepath": "val", "filter": "val", "chunk_size": "int"}
        ACCEPT = "(n_calls() == 0 or truthy(call_result(0)))"     # (no call = no filter, by the first clause)
        S.contract(F + dname, params=dparams, abstract_calls=abstract, requires=["chunk_size >= 1"], merge_iteration=True,
                   effects={"normal": 0, "raise": (0, 1)},
                   ensures={"destination_directory_made_if_missing": (
                       "n_ev('Mkdir') == (0 if fs_is_dir(%s, %s) else 1) and implies(n_ev('Mkdir') == 1, same(ev_val('Mkdir', 0, 1), %s))"
                       % (dstp, DR, dstp), P20),
                       "every_entry_visited": ("n_ev('Loop') == 1", P20)},
                   raises={"BaseException": {"props": P20, "modifies": ["**"]}}, modifies=["**"],
                   loops={0: {"rest": "todo", "modifies": [], "props": P20,
                              "invariant": ["all_str(todo)"],
                              "body_events": [
                                  # the filter is asked exactly once about exactly this name (never when there is no filter)
                                  "n_calls() == (1 if truthy(filter) else 0) and implies(n_calls() == 1, same(call_fn(0), filter) and "
                                  "call_args(0) == cons(fn, nil()))",
                                  # an accepted entry is transferred under the same name on both sides; a rejected one is not touched
                                  "n_callees('%s') == (1 if %s else 0) and n_events() == n_calls() + n_callees('%s')" % (fname, ACCEPT, fname),
                                  "implies(n_callees('%s') == 1, same(callee_arg('%s', 0, 'conn'), conn) and "
                                  "same(callee_arg('%s', 0, 'localpath'), path_join(localpath, fn, FALSE)) and "
                                  "same(callee_arg('%s', 0, 'remotepath'), path_join(remotepath, fn, TRUE)) and "
                                  "same(callee_arg('%s', 0, 'filter'), filter) and truthy(callee_arg('%s', 0, 'ignore_invalid')) and "
                                  "callee_arg('%s', 0, 'chunk_size') == chunk_size)" % ((fname,) * 7)]}})
    tree("upload", "upload_dir", "upload_file", False, "localpath", "remotepath")
    tree("download", "download_dir", "download_file", True, "remotepath", "localpath")
