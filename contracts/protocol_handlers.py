"""Contracts for the small request handlers of rpyc/core/protocol.py (C02 second half of the forwarding table,
C10 release notice, C07 pickling switch): each handler performs exactly the one operation its name says on
exactly the object it was given (ghost Op event) and returns / raises what that operation did."""
F = "rpyc/core/protocol.py::Connection."
P2 = ["C02"]


def register(S):
    conn = {"self": "obj:Connection"}

    S.contract(F + "_handle_ping", params=dict(conn, data="val"), result="val", effect_free=True,
               ensures={"echo": ("same(result, data)", ["C02"])}, raises={}, modifies=[])
    S.contract(F + "_handle_getroot", params=dict(conn), result="val", effect_free=True,
               ensures={"the_local_root": ("same(result, self._local_root)", ["C02", "C06"])}, raises={}, modifies=[])

    def one_op(handler, op, params, extra, result_expr="same(result, op_result(0))"):
        ok = ("n_ops() == 1 and n_events() == 1 and op_name(0) == '%s' and same(op_target(0), obj) and op_args(0) == %s" % (op, extra))
        S.contract(F + handler, params=dict(conn, obj="val", **params), result="val",
                   ensures={"exactly_this_operation_on_exactly_this_object": (ok, P2),
                            "returns_its_result": (result_expr, P2)},
                   raises={"BaseException": {"props": P2, "state": [ok]}}, modifies=[])
    one_op("_handle_repr", "repr", {}, "nil()")
    one_op("_handle_str", "str", {}, "nil()")
    one_op("_handle_hash", "hash", {}, "nil()")
    # dir / buffered iteration: the result is the tuple of what the operation produced (tuple() of it may fail: TypeError)
    DIR = "n_ops() == 1 and n_events() == 1 and op_name(0) == 'dir' and same(op_target(0), obj) and op_args(0) == nil()"
    S.contract(F + "_handle_dir", params=dict(conn, obj="val"), result="val",
               ensures={"exactly_this_operation_on_exactly_this_object": (DIR, P2),
                        "returns_its_result": ("same(result, tuple_of(op_result(0)))", P2)},
               raises={"BaseException": {"props": P2, "state": ["n_ops() == 1 and n_events() == 1 and op_name(0) == 'dir' and same(op_target(0), obj)"]}},
               modifies=[])
    BUF = ("n_ops() == 1 and n_events() == 1 and op_name(0) == 'islice' and same(op_target(0), obj) and "
           "op_args(0) == cons(count, nil())")
    S.contract(F + "_handle_buffiter", params=dict(conn, obj="val", count="val"), result="val",
               ensures={"exactly_this_operation_on_exactly_this_object": (BUF, P2),
                        "returns_its_result": ("same(result, tuple_of(op_result(0)))", P2)},
               raises={"BaseException": {"props": P2, "state": [BUF]}}, modifies=[])

    # pickling: refused - before anything is pickled - unless the switch is on
    S.declare_fields("Connection", _config="dict")
    PK = ("n_ops() == 1 and n_events() == 1 and op_name(0) == 'pickle.dumps' and same(op_target(0), obj) and "
          "op_args(0) == cons(proto, nil())")
    S.contract(F + "_handle_pickle", params=dict(conn, obj="val", proto="val"), result="val",
               dispatch=[("not truthy(self._config['allow_pickle'])", "disabled"), (None, "enabled")],
               behaviours={
                   "disabled": dict(requires=["haskey(self._config, 'allow_pickle')", "not truthy(self._config['allow_pickle'])"],
                                    noreturn=True, modifies=[],
                                    raises={"ValueError": {"props": ["C07", "C03"], "state": ["n_events() == 0"]}}),
                   "enabled": dict(requires=["haskey(self._config, 'allow_pickle')", "truthy(self._config['allow_pickle'])"], modifies=[],
                                   ensures={"exactly_this_operation_on_exactly_this_object": (PK, ["C03", "C02"]),
                                            "returns_its_result": ("same(result, op_result(0))", ["C03", "C02"])},
                                   raises={"BaseException": {"props": ["C03"], "state": [PK]}}),
               })

    # the release notice (C10): the table entry of exactly this object's id loses `count` boxes
    S.declare_fields("Connection", _local_objects="obj:RefCountingColl")
    KEY = "id_pack(obj)"
    D = "self._local_objects._dict"
    WF = "implies(haskey(%s, %s), slot_ok(%s[%s]))" % (D, KEY, D, KEY)
    S.contract(F + "_handle_del", params=dict(conn, obj="val", count="int"), requires=[WF, "count >= 0"],
               ensures={"count_returned": ("boxes(%s, %s) == after_decref(old(boxes(%s, %s)), count)" % (D, KEY, D, KEY), ["C10"]),
                        "object_kept": ("implies(haskey(%s, %s), same(lent(%s, %s), old(lent(%s, %s))) and slot_ok(%s[%s]))" % (
                            D, KEY, D, KEY, D, KEY, D, KEY), ["C10"]),
                        "other_ids_untouched": ("unchanged_except(%s, %s)" % (D, KEY), ["C10", "C07"]),
                        "no_user_code": ("n_events() == n_callees('decref') and n_callees('decref') == 1", ["C10", "C07"])},
               raises={"KeyError": {"only_when": "not haskey(%s, %s)" % (D, KEY), "props": ["C10", "C07"], "modifies": [],
                                    "state": ["n_events() == n_callees('decref')"]}},
               modifies=[D])
