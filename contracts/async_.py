"""Contracts for rpyc/lib/__init__.py::Timeout and rpyc/core/async_.py::AsyncResult (C15, C11, C13).
Time is a real-valued ghost clock: every time.time() returns `now` and the clock never runs backwards."""
T = "rpyc/lib/__init__.py::Timeout."
A = "rpyc/core/async_.py::AsyncResult."
P15 = ["C15"]


def register(S):
    S.declare_fields("Timeout", finite="bool", tmax="real")
    S.declare_fields("AsyncResult", _conn="obj:Connection", _is_ready="bool", _is_exc="val", _obj="val", _callbacks="vlist",
                     _ttl="obj:Timeout")
    # ---- Timeout ---------------------------------------------------------------------------------------------
    S.contract(T + "__init__", params={"self": "obj:Timeout", "timeout": "val"},
               dispatch=[("is_heap_obj(timeout)", "copy"), (None, "value")],
               behaviours={
                   "copy": dict(params={"timeout": "obj:Timeout"},
                                ensures={"copies_the_deadline": ("self.finite == timeout.finite and "
                                                                 "implies(self.finite, self.tmax == timeout.tmax)", P15)},
                                raises={}, modifies=["self.finite", "self.tmax"]),
                   # the statement leaves negative timeouts open: they are excluded from the claims by precondition
                   "value": dict(clock=True, requires=["isnone(timeout) or (isnum(timeout) and num_of(timeout) >= 0)"],
                                 ensures={"finite_iff_given": ("self.finite == (not isnone(timeout))", P15),
                                          "deadline_is_now_plus_timeout": (
                                              "implies(self.finite, self.tmax == now() + num_of(timeout))", P15)},
                                 raises={}, modifies=["self.finite", "self.tmax"]),
               })
    S.contract(T + "expired", params={"self": "obj:Timeout"}, result="bool", clock=True, effect_free=True,
               ensures={"never_early": ("implies(result, self.finite and now() >= self.tmax)", P15),
                        "not_late": ("implies(self.finite and old(now()) > self.tmax, result)", P15),
                        "no_deadline_never_expires": ("implies(not self.finite, not result)", P15)},
               raises={}, modifies=[])
    S.contract(T + "timeleft", params={"self": "obj:Timeout"}, result="any", clock=True, effect_free=True,
               ensures={"remaining_time": ("(result is None) if not self.finite else "
                                           "(result == max(0, self.tmax - now()))", P15)},
               raises={}, modifies=[])

    # ---- Connection entry points an AsyncResult drives (interface contracts; bodies verified under C11) --------
    C = "rpyc/core/protocol.py::Connection."
    S.contract(C + "poll_all", params={"self": "obj:Connection", "timeout": "any"}, result="any", trusted=True,
               note="ASSUMED here (interface): serves what has arrived; EOFError is swallowed",
               ensures={}, clock=True,
               raises={"BaseException": {"state": ["not exc_is(exc, 'TimeoutError')"], "props": ["C15"]}}, modifies=[])
    REENTRY = {"havoc": ["self._is_ready", "self._is_exc", "self._obj", "self._callbacks"], "clock": True,
               # the only writer of these fields is AsyncResult.__call__ (frame + writer scan): an outcome is final
               "assume": ["implies(old(self._is_ready), self._is_ready and same(self._obj, old(self._obj)) and "
                          "same(self._is_exc, old(self._is_exc)))"]}

    # ---- AsyncResult -----------------------------------------------------------------------------------------
    S.contract(A + "__init__", params={"self": "obj:AsyncResult", "conn": "obj:Connection"},
               ensures={"pending_without_deadline": (
                   "self._conn is conn and not self._is_ready and isnil(self._callbacks.items) and not self._ttl.finite", P15)},
               raises={}, sets={"self._conn": "conn"},
               modifies=["self._conn", "self._is_ready", "self._is_exc", "self._obj", "self._callbacks", "self._ttl"])
    S.contract(A + "expired", params={"self": "obj:AsyncResult"}, inline=True, note="property: not ready and ttl.expired()")
    CALLED_ALL = "n_ev('Loop') == 1 and loop_ghost(0, 'called') == old(self._callbacks.items)"
    S.contract(A + "__call__", params={"self": "obj:AsyncResult", "is_exc": "val", "obj": "val"},
               requires=["not self._is_ready"], clock=True, effects={"normal": 0, "raise": (0, 1)},
               ensures={
                   # the reply came first: value stored, then every registered callback exactly once, in registration order
                   "arrival_is_final_and_notifies_once_in_order": (
                       "implies(self._is_ready, same(self._obj, obj) and same(self._is_exc, is_exc) and " + CALLED_ALL +
                       " and isnil(self._callbacks.items) and n_calls() == 0)", P15),
                   # the expiry came first: the late reply is discarded without running callbacks
                   "late_reply_discarded": (
                       "implies(not self._is_ready, n_events() == 0 and same(self._obj, old(self._obj)) and "
                       "self._callbacks.items == old(self._callbacks.items) and self._ttl.finite and now() >= self._ttl.tmax)", P15),
                   "not_accepted_after_expiry": ("implies(self._ttl.finite and old(now()) > self._ttl.tmax, not self._is_ready)", P15)},
               raises={"BaseException": {"state": ["self._is_ready", "same(self._obj, obj)"], "props": P15,
                                         "modifies": ["self._is_ready", "self._is_exc", "self._obj", "self._callbacks"]}},
               modifies=["self._is_ready", "self._is_exc", "self._obj", "self._callbacks"],
               loops={0: {"rest": "rest", "ghost": {"called": ("vl", "nil()", "app(called, cons(cb, nil()))")},
                          "invariant": ["app(called, rest) == old(self._callbacks.items)", "self._is_ready",
                                        "same(self._obj, obj)", "same(self._is_exc, is_exc)",
                                        "self._callbacks.items == old(self._callbacks.items)"],
                          "body_events": ["n_calls() == 1 and n_events() == 1 and same(call_fn(0), cb) and "
                                          "call_args(0) == cons(self, nil())"],
                          "hints": [], "step_hints": ["app_app1(old_called, cb, rest)"], "exit_hints": ["app_nil(called)"]}})
    S.contract(A + "add_callback", params={"self": "obj:AsyncResult", "func": "val"}, effects={"normal": (0, 1), "raise": (1, 1)},
               ensures={"called_at_once_if_ready_else_registered_last": (
                   "(n_calls() == 1 and n_events() == 1 and same(call_fn(0), func) and call_args(0) == cons(self, nil()) and "
                   "self._callbacks.items == old(self._callbacks.items)) if old(self._is_ready) else "
                   "(n_events() == 0 and self._callbacks.items == app(old(self._callbacks.items), cons(func, nil())))", P15)},
               raises={"BaseException": {"state": ["old(self._is_ready) and n_calls() == 1"], "props": P15}},
               modifies=["self._callbacks"])
    S.contract(A + "set_expiry", params={"self": "obj:AsyncResult", "timeout": "val"}, clock=True,
               requires=["isnone(timeout) or (isnum(timeout) and num_of(timeout) >= 0)"],
               ensures={"deadline_relative_to_now": (
                   "self._ttl.finite == (not isnone(timeout)) and implies(self._ttl.finite, "
                   "self._ttl.tmax == now() + num_of(timeout))", P15)},
               raises={}, modifies=["self._ttl"])
    S.contract(A + "wait", params={"self": "obj:AsyncResult"}, clock=True,
               ensures={"returns_only_when_ready": ("self._is_ready", P15 + ["C11"])},
               raises={"AsyncResultTimeout": {
                   # raised at the expiry instant, never earlier: the deadline has been reached at the final test
                   "state": ["not self._is_ready", "self._ttl.finite and now() >= self._ttl.tmax"], "props": P15,
                   "modifies": ["self._is_ready", "self._is_exc", "self._obj", "self._callbacks"]},
                   "BaseException": {"props": P15, "modifies": ["self._is_ready", "self._is_exc", "self._obj", "self._callbacks"]}},
               modifies=["self._is_ready", "self._is_exc", "self._obj", "self._callbacks"],
               calls={"serve": {"interference": REENTRY, "behaviour": "as_seen_by_a_waiter"}},
               loops={0: {"modifies": ["self._is_ready", "self._is_exc", "self._obj", "self._callbacks"], "clock": True,
                          "invariant": ["self._ttl is old(self._ttl)", "self._conn is old(self._conn)"],
                          # the wait is bounded by the result's OWN deadline object, not by a fresh relative timeout
                          "body_events": ["n_callees('serve') == 1 and callee_arg('serve', 0, 'timeout') is self._ttl"]}})
    S.contract(A + "value", params={"self": "obj:AsyncResult"}, result="val", clock=True,
               ensures={"the_value_that_arrived": ("self._is_ready and not truthy(self._is_exc) and same(result, self._obj)", P15 + ["C01"])},
               raises={"BaseException": {"props": P15, "modifies": ["self._is_ready", "self._is_exc", "self._obj", "self._callbacks"]}},
               modifies=["self._is_ready", "self._is_exc", "self._obj", "self._callbacks"])
    S.contract(A + "ready", params={"self": "obj:AsyncResult"}, result="bool", clock=True,
               ensures={"is_the_state": ("result == self._is_ready", P15),
                        "no_serving_once_decided": ("implies(old(self._is_ready), n_events() == 0)", P15)},
               raises={"BaseException": {"props": P15, "modifies": ["self._is_ready", "self._is_exc", "self._obj", "self._callbacks"]}},
               modifies=["self._is_ready", "self._is_exc", "self._obj", "self._callbacks"],
               calls={"poll_all": {"interference": REENTRY}})
