"""Contracts for rpyc/lib/colls.py: RefCountingColl (C10, C03, C07) against the abstract view of
spec/refcount_spec.py.  A slot list fetched from the table is modelled as an alias of the table
entry (in-place mutation of the fetched slot mutates the entry); slots of distinct keys are
distinct list objects (each is created fresh by add) - stated assumption."""
F = "rpyc/lib/colls.py::RefCountingColl."
P10 = ["C10", "C03", "C07"]


def register(S):
    register_lemmas(S)
    S.declare_fields("RefCountingColl", _lock="obj:Lock", _dict="dict:slot")
    WF = "implies(haskey(self._dict, key), slot_ok(self._dict[key]))"
    S.contract(F + "add", params={"self": "obj:RefCountingColl", "key": "val", "obj": "val"}, requires=[WF],
               ensures={"one_more_box": ("boxes(self._dict, key) == after_add(old(boxes(self._dict, key)))", P10),
                        # (under T-ID what is already lent under this id IS obj, so keeping it or storing obj are the same)
                        "object_kept_or_stored": ("same(lent(self._dict, key), obj) or (old(haskey(self._dict, key)) and "
                                                  "same(lent(self._dict, key), old(lent(self._dict, key))))", P10),
                        "slot_well_formed": ("slot_ok(self._dict[key])", P10),
                        "other_ids_untouched": ("unchanged_except(self._dict, key)", P10)},
               raises={}, modifies=["self._dict"])
    S.contracts[F + "add"].effect_free = True
    S.contract(F + "decref", params={"self": "obj:RefCountingColl", "key": "val", "count": "int"}, requires=[WF, "count >= 0"],
               ensures={"count_returned": ("boxes(self._dict, key) == after_decref(old(boxes(self._dict, key)), count)", P10),
                        "was_present": ("old(haskey(self._dict, key))", P10),
                        "object_kept": ("implies(haskey(self._dict, key), same(lent(self._dict, key), old(lent(self._dict, key))) "
                                        "and slot_ok(self._dict[key]))", P10),
                        "other_ids_untouched": ("unchanged_except(self._dict, key)", P10)},
               raises={"KeyError": {"only_when": "not haskey(self._dict, key)", "props": P10,
                                    "modifies": []}},
               modifies=["self._dict"])
    S.contract(F + "clear", params={"self": "obj:RefCountingColl"},
               ensures={"everything_released": ("dict_empty(self._dict)", P10 + ["C11"])}, raises={}, modifies=["self._dict"])
    S.contract(F + "__getitem__", params={"self": "obj:RefCountingColl", "key": "val"}, result="val", requires=[WF],
               ensures={"the_lent_object": ("haskey(self._dict, key) and same(result, lent(self._dict, key))", P10)},
               raises={"KeyError": {"only_when": "not haskey(self._dict, key)", "props": P10}}, modifies=[])


def register_lemmas(S):
    """C10's inductive invariant over all histories of refcount messages, for one lent id:
       B boxes outstanding at the owner (slot count + 1, or 0 = slot absent), F reference labels in flight
       owner->peer, P sum of the refcounts of the live proxies at the peer, D sum of the counts of release
       notices created and not yet processed.   I == (B = F + P + D) and all >= 0.
    Each transition's effect on B is the spec function the contracts of add / decref are stated with
    (after_add / after_decref), so weakening those contracts breaks these lemmas."""
    def inv(K, B, F_, P, D):
        return K.z3.And(B.z == F_.z + P.z + D.z, B.z >= 0, F_.z >= 0, P.z >= 0, D.z >= 0)

    @S.composition("C10/inductive", ["C10"])
    def inductive(K):
        z3 = K.z3
        B, F_, P, D, c = [K.fresh(n, "int") for n in ("B", "F", "P", "D", "c")]
        I = inv(K, B, F_, P, D)
        K.uses(F + "add", "default", "ensures:one_more_box")
        K.uses(F + "decref", "default", "ensures:count_returned")
        out = []
        # the owner boxes the object once more (alone or as one occurrence inside a tuple)
        B1 = K.expr("after_add(B)", {"B": B})
        out.append(("box", [I], z3.And(B1.z == (F_.z + 1) + P.z + D.z, B1.z >= 0)))
        # the reference label arrives: the live proxy's count is bumped, or a new proxy with count 1 is created
        out.append(("unbox", [I, F_.z >= 1], z3.And(B.z == (F_.z - 1) + (P.z + 1) + D.z, F_.z - 1 >= 0)))
        # a proxy is dropped: its finalizer sends its WHOLE count c as one release notice
        out.append(("drop-proxy", [I, c.z >= 1, c.z <= P.z], z3.And(B.z == F_.z + (P.z - c.z) + (D.z + c.z), P.z - c.z >= 0)))
        # a release notice with count c is processed by the owner (decref)
        B2 = K.expr("after_decref(B, c)", {"B": B, "c": c})
        out.append(("deliver-release", [I, c.z >= 1, c.z <= D.z], z3.And(B2.z == F_.z + P.z + (D.z - c.z), B2.z >= 0, D.z - c.z >= 0)))
        # passing a proxy back to its owner is a local-reference label: nothing changes (no transition)
        # consequences
        out.append(("alive-while-held", [I, P.z >= 1], B.z >= 1))
        out.append(("released-when-all-dropped", [I, F_.z == 0, P.z == 0, D.z == 0], B.z == 0))
        return out
