"""Contracts for rpyc/lib/colls.py: RefCountingColl (C10, C03, C07) against the abstract view of
spec/refcount_spec.py.  A slot list fetched from the table is modelled as an alias of the table
entry (in-place mutation of the fetched slot mutates the entry); slots of distinct keys are
distinct list objects (each is created fresh by add) - stated assumption."""
F = "rpyc/lib/colls.py::RefCountingColl."
P10 = ["C10", "C03", "C07"]


def register(S):
    S.declare_fields("RefCountingColl", _lock="obj:Lock", _dict="dict:slot")
    WF = "implies(haskey(self._dict, key), slot_ok(self._dict[key]))"
    S.contract(F + "add", params={"self": "obj:RefCountingColl", "key": "val", "obj": "val"}, requires=[WF],
               ensures={"one_more_box": ("boxes(self._dict, key) == after_add(old(boxes(self._dict, key)))", P10),
                        "object_kept_or_stored": ("same(lent(self._dict, key), old(lent(self._dict, key)) "
                                                  "if old(haskey(self._dict, key)) else obj)", P10),
                        "slot_well_formed": ("slot_ok(self._dict[key])", P10),
                        "other_ids_untouched": ("unchanged_except(self._dict, key)", P10)},
               raises={}, modifies=["self._dict"])
    S.contract(F + "decref", params={"self": "obj:RefCountingColl", "key": "val", "count": "int"}, requires=[WF, "count >= 0"],
               ensures={"count_returned": ("boxes(self._dict, key) == after_decref(old(boxes(self._dict, key)), count)", P10),
                        "was_present": ("old(haskey(self._dict, key))", P10),
                        "object_kept": ("implies(haskey(self._dict, key), same(lent(self._dict, key), old(lent(self._dict, key))) "
                                        "and slot_ok(self._dict[key]))", P10),
                        "other_ids_untouched": ("unchanged_except(self._dict, key)", P10)},
               raises={"KeyError": {"only_when": "not haskey(self._dict, key)", "props": P10,
                                    "modifies": []}},
               modifies=["self._dict"])
    S.contract(F + "clear", params={"self": "obj:RefCountingColl"},
               ensures={"everything_released": ("dict_empty(self._dict)", P10 + ["C11"])}, raises={}, modifies=["self._dict"])
    S.contract(F + "__getitem__", params={"self": "obj:RefCountingColl", "key": "val"}, result="val", requires=[WF],
               ensures={"the_lent_object": ("haskey(self._dict, key) and same(result, lent(self._dict, key))", P10)},
               raises={"KeyError": {"only_when": "not haskey(self._dict, key)", "props": P10}}, modifies=[])
