"""Contracts for rpyc/core/brine.py (all 45 functions).

Top-level postconditions come from the statements of C04 / C19 / C03 (spec functions in
spec/brine_spec.py); helper shapes come from the code and its call sites.
Behaviours of the loaders:
  roundtrip -- ghost (v, rest): the unread input is enc(v) ++ rest  =>  returns v, leaves rest
  safety    -- arbitrary unread input: returns a plain value or raises; no effect but reading
"""
F = "rpyc/core/brine.py::"

P_ENC = ["C04", "C19", "C03", "C01"]         # properties that need exact transport of values
P_ACC = ["C04", "C03", "C08"]                # ... that need "refuses exactly the non-plain values"
P_DEC = ["C04", "C19", "C03", "C01"]
P_SAFE = ["C04", "C07", "C16", "C18"]

APPENDS = "join(stream) == old(join(stream)) + enc(val(obj))"

# exceptions of the encoder and what each one means (only_when = may escape only if ...)
ENC_RAISES = {
    "TypeError": {"only_when": "not plain(val(obj))", "props": P_ACC},
    "ValueError": {"only_when": "not sized(val(obj))", "props": ["C04"]},
    "struct.error": {"only_when": "not sized(val(obj))", "props": ["C04"]},
}


def register(S):
    def dumper(name, sort, requires=(), raises=None, loops=None, extra_ensures=None, hints=()):
        ens = {"appends_enc": (APPENDS, P_ENC)}
        ens.update(extra_ensures or {})
        S.contract(F + name, params={"obj": sort, "stream": "joinlist"}, requires=list(requires), ensures=ens, effect_free=True,
                   raises=raises or {}, modifies=["stream"], loops=loops or {}, hints=list(hints))

    dumper("_dump_none", "val", requires=["isnone(obj)"])
    dumper("_dump_notimplemeted", "val", requires=["isnotimpl(obj)"])
    dumper("_dump_ellipsis", "val", requires=["isellipsis(obj)"])
    dumper("_dump_bool", "bool")
    dumper("_dump_int", "int", raises={k: ENC_RAISES[k] for k in ("ValueError", "struct.error")})
    dumper("_dump_float", "f64")
    dumper("_dump_complex", "complex")
    dumper("_dump_bytes", "bytes", raises={"struct.error": ENC_RAISES["struct.error"]})
    dumper("_dump_str", "str", raises={"struct.error": ENC_RAISES["struct.error"]})
    PLAIN_ONLY = {"returns_only_if_plain": ("plain(val(obj))", P_ACC)}
    dumper("_dump_slice", "slice", raises=ENC_RAISES, extra_ensures=PLAIN_ONLY)
    dumper("_dump_frozenset", "fset", raises=ENC_RAISES, extra_ensures=PLAIN_ONLY)
    dumper("_dump_tuple", "vl", raises=ENC_RAISES, extra_ensures=PLAIN_ONLY, loops={0: {
        "rest": "rest",
        "invariant": [
            # remaining form: what is written so far plus the encoding of what is left is the whole encoding
            "join(stream) + enc_list(rest) == old(join(stream)) + tup_hdr(len(obj)) + enc_list(obj)",
            "plain_list(obj) == plain_list(rest)",
            "implies(not sized_list(rest), not sized_list(obj))",
        ]}})
    S.contract(F + "_undumpable", params={"obj": "val", "stream": "joinlist"}, effect_free=True,
               noreturn=True, raises={"TypeError": {"props": P_ACC}}, modifies=[])
    dumper("_dump", "val", raises=ENC_RAISES, extra_ensures=PLAIN_ONLY)
    S.contract(F + "dump", params={"obj": "val"}, result="bytes", effect_free=True,
               ensures={"is_enc": ("result == enc(obj)", P_ENC), "returns_only_if_plain": ("plain(obj)", P_ACC)},
               raises=ENC_RAISES, modifies=[])

    # dumpable(): decides by exact type, total, no effect
    S.contract(F + "dumpable", params={"obj": "val"}, result="bool", effect_free=True,
               ensures={"is_plain": ("result == plain(obj)", ["C04", "C03", "C09", "C08"])}, raises={}, modifies=[],
               loops={0: {"rest": "rest", "invariant": ["acc == True", "plain(obj) == plain_list(rest)"],
                          "havoc": {"acc": "bool"}}})


    # -----------------------------------------------------------------------------------------
    # loaders
    # -----------------------------------------------------------------------------------------
    S.declare_fields("BytesIO", unread="bytes")
    RT_REQ = ["plain(v)", "wf(v)", "sized(v)"]
    RT_ENS = {"returns_v": ("same(result, v)", P_DEC), "consumes_exactly": ("stream.unread == rest", P_DEC)}
    SAFE_ENS = {"yields_plain": ("plain(val(result))", P_SAFE),
                # what the decoder yields can always be encoded again (sizes within the format, integers renderable)
                "yields_reencodable": ("sized(val(result))", ["C04", "C18", "C08"])}
    SAFE_RAISES = {"Exception": {"props": P_SAFE}}      # the statement allows any exception on arbitrary bytes

    def loader(name, tag, loops_rt=None, loops_safe=None, calls=None, hints=(), result="val", split=()):
        # effect_free: decoding performs no call, attribute access, import or construction (no ghost event at all)
        S.contract(F + name, params={"stream": "obj:BytesIO"}, result=result, effect_free=True, behaviours={
            "roundtrip": dict(ghost={"v": "val", "rest": "bytes"},
                              requires=["T.%s + stream.unread == enc(v) + rest" % tag] + RT_REQ,
                              ensures=RT_ENS, raises={}, modifies=["stream.unread"], loops=loops_rt,
                              calls=calls or {}, hints=list(hints), split=list(split),
                              native_build="{'stream': (enc(v) + rest)[1:]}"),
            "safety": dict(ensures=SAFE_ENS, raises=SAFE_RAISES, modifies=["stream.unread"], loops=loops_safe),
        })

    for name, tag in (("_load_none", "NONE"), ("_load_nonimp", "NOT_IMPLEMENTED"), ("_load_elipsis", "ELLIPSIS"),
                      ("_load_true", "TRUE"), ("_load_false", "FALSE"), ("_load_empty_tuple", "EMPTY_TUPLE"),
                      ("_load_empty_str", "EMPTY_STR"), ("_load_float", "FLOAT"), ("_load_complex", "COMPLEX"),
                      ("_load_str1", "STR1"), ("_load_str2", "STR2"), ("_load_str3", "STR3"), ("_load_str4", "STR4"),
                      ("_load_str_l1", "STR_L1"), ("_load_str_l4", "STR_L4"), ("_load_int_l1", "INT_L1"),
                      ("_load_int_l4", "INT_L4")):
        loader(name, tag)

    # nested loads: the ghost arguments of each inner _load call say which sub-value it is reading
    def item(k, n):
        """ghost for the k-th of n consecutive _load calls reading the items of tuple v"""
        l = "items(v)"
        for _ in range(k):
            l = "tail(%s)" % l
        return {"ghost": {"v": "head(%s)" % l, "rest": "enc_list(tail(%s)) + rest" % l}}

    def spine_hints(n):
        """unfold the list functions along the first n+1 cells of items(v)"""
        out, l = [], "items(v)"
        for _ in range(n + 1):
            out += ["%s(%s)" % (f, l) for f in ("vlen", "enc_list", "plain_list", "wf_list", "sized_list")]
            l = "tail(%s)" % l
        return out

    loader("_load_unicode", "UNICODE", calls={"_load#0": {"ghost": {"v": "mkbytes(utf8(as_str(v)))", "rest": "rest"}}})
    for n in (1, 2, 3, 4):
        loader("_load_tup%d" % n, "TUP%d" % n, calls={"_load#%d" % k: item(k, n) for k in range(n)},
               hints=spine_hints(n))
    loader("_load_slice", "SLICE", calls={"_load#0": {"ghost": {
        "v": "mktuple(cons(slice_start(v), cons(slice_stop(v), cons(slice_step(v), nil()))))", "rest": "rest"}}})
    loader("_load_frozenset", "FSET", calls={"_load#0": {"ghost": {"v": "mktuple(order_of(fitems(v)))", "rest": "rest"}}})

    LOOP_RT = {0: {
        "ghost": {"todo": ("vl", "items(v)", "tail(todo)")},
        "havoc": {"acc": "vl"},
        "invariant": [
            "app(acc, todo) == items(v)",
            "stream.unread == enc_list(todo) + rest",
            "len(todo) == l - i",
            "plain_list(todo) and wf_list(todo) and sized_list(todo)",
        ],
        "snoc_hints": ["app_snoc(acc, x, tail(todo))"],
        "exit_hints": ["app_nil(acc)", "vlen(todo)"],
    }}
    LOOP_SAFE = {0: {"havoc": {"acc": "vl"}, "invariant": ["plain_list(acc)", "sized_list(acc)", "len(acc) == i", "i <= l"],
                     "snoc_hints": ["plain_snoc(acc, x)", "sized_snoc(acc, x)", "vlen_snoc(acc, x)"]}}
    for name, tag in (("_load_tup_l1", "TUP_L1"), ("_load_tup_l4", "TUP_L4")):
        loader(name, tag, loops_rt=LOOP_RT, loops_safe=LOOP_SAFE,
               calls={"_load#0": {"ghost": {"v": "head(todo)", "rest": "enc_list(tail(todo)) + rest"}}})

    S.contract(F + "_load", params={"stream": "obj:BytesIO"}, result="val", effect_free=True, behaviours={
        "roundtrip": dict(ghost={"v": "val", "rest": "bytes"},
                          requires=["stream.unread == enc(v) + rest"] + RT_REQ, ensures=RT_ENS, raises={},
                          modifies=["stream.unread"], calls={"*": {"ghost": {"v": "v", "rest": "rest"}}},
                          native_build="{'stream': enc(v) + rest}"),
        "safety": dict(ensures=SAFE_ENS, raises=SAFE_RAISES, modifies=["stream.unread"]),
    })
    S.contract(F + "load", params={"data": "val"}, result="val", effect_free=True, behaviours={
        "roundtrip": dict(ghost={"v": "val"}, requires=["data == mkbytes(enc(v))"] + RT_REQ,
                          ensures={"returns_v": ("same(result, v)", P_DEC)}, raises={}, modifies=[],
                          calls={"_load#0": {"ghost": {"v": "v", "rest": "empty()"}}},
                          native_build="{'data': enc(v)}"),
        # decoding is a function of the bytes (assumed: the library models use fresh values for what they return)
        "safety": dict(ensures=dict(SAFE_ENS, assumed_deterministic=("same(result, decoded(data))", ["C08", "C19", "C01"])),
                       raises=SAFE_RAISES, modifies=[]),
    })


    # -----------------------------------------------------------------------------------------
    # property-level lemmas over the contract clauses (hypotheses are fetched from the store by id)
    # -----------------------------------------------------------------------------------------
    @S.composition("C04/roundtrip", ["C04", "C03", "C01", "C19"])
    def roundtrip(K):
        """load(dump(v)) is v, type-exact and bit-exact: from dump.is_enc and load[roundtrip]"""
        v, b, r = K.fresh("v", "val"), K.fresh("b", "bytes"), K.fresh("r", "val")
        hyps = [K.ensures(F + "dump", "default", "is_enc", {"obj": v, "result": b}),
                K.ensures(F + "dump", "default", "returns_only_if_plain", {"obj": v, "result": b}),
                K.expr("wf(v) and sized(v)", {"v": v})]
        bind = {"data": K.expr("mkbytes(b)", {"b": b}), "v": v, "result": r}
        hyps.append(K.implication(F + "load", "roundtrip", bind))
        K.require_no_raises(F + "load", "roundtrip")
        return [("holds", hyps, K.expr("same(r, v)", {"r": r, "v": v}))]

    @S.composition("C04/refuses-exactly-nonplain", ["C04", "C03"])
    def refuses(K):
        """for every value in scope: dumpable(v) => dump returns; not dumpable(v) => dump raises TypeError"""
        v, d = K.fresh("v", "val"), K.fresh("d", "bool")
        outcome = K.fresh("outcome", "int")          # 0 = returned, k = k-th entry of dump's raises
        names = K.raises_names(F + "dump", "default")
        hyps = [K.z3.And(outcome.z >= 0, outcome.z <= len(names)),
                K.z3.Implies(outcome.z == 0, K.ensures(F + "dump", "default", "returns_only_if_plain", {"obj": v})),
                K.ensures(F + "dumpable", "default", "is_plain", {"obj": v, "result": d})]
        K.require_no_raises(F + "dumpable", "default")
        for i, n in enumerate(names):
            hyps.append(K.z3.Implies(outcome.z == i + 1, K.only_when(F + "dump", "default", n, {"obj": v})))
        te = names.index("TypeError") + 1
        goal = K.z3.Implies(K.expr("sized(v)", {"v": v}),
                            K.z3.And(K.z3.Implies(d.z, outcome.z == 0), K.z3.Implies(K.z3.Not(d.z), outcome.z == te)))
        return [("holds", hyps, goal)]
