"""Contract for Connection.__init__ (C16 / C06 isolation): every connection starts with its OWN, empty tables - nothing is
shared with any other connection - and serves the root it was given."""
F = "rpyc/core/protocol.py::Connection."
C = "rpyc/lib/colls.py::"
P = ["C16", "C06", "C10"]


def register(S):
    S.external("handler_table_of", params={"self_arg": "any"}, result="val", note="Connection._request_handlers(): the handler table (enumerated under C02/C07)",
               outcomes=[{"label": "ok"}])
    S.external("next_connection_id", params={"self_arg": "any", "counter": "any"}, result="int", note="next() on the module's connection counter",
               outcomes=[{"label": "ok"}])
    S.declare_fields("WeakValueDict", _dict="dict")
    S.contract(C + "WeakValueDict.__init__", params={"self": "obj:WeakValueDict"},
               ensures={"empty": ("dict_empty(self._dict) and is_new(self._dict)", P)}, raises={}, modifies=["self._dict"])
    S.contract(C + "RefCountingColl.__init__", params={"self": "obj:RefCountingColl"},
               ensures={"empty": ("dict_empty(self._dict) and is_new(self._dict)", P)}, raises={},
               modifies=["self._dict", "self._lock"])
    # (the fields of Connection are declared by the contracts of the functions that use them; only what is new here:)
    S.declare_fields("Connection", _send_queue="vlist")
    OWN = ["self._local_objects", "self._local_objects._dict", "self._proxy_cache", "self._proxy_cache._dict", "self._request_callbacks",
           "self._netref_classes_cache", "self._send_queue", "self._sendlock", "self._recvlock", "self._recv_event", "self._seqcounter",
           "self._config"]
    S.contract(F + "__init__", params={"self": "obj:Connection", "root": "val", "channel": "obj:Channel", "config": "dict"},
               abstract_calls={"self._request_handlers": "handler_table_of", "next": "next_connection_id"},
               ensures={
                   # the per-connection state is newly created by this very call: no other connection can hold a reference to it
                   "own_tables": (" and ".join("is_new(%s)" % o for o in OWN), P),
                   "tables_start_empty": ("dict_empty(self._local_objects._dict) and dict_empty(self._proxy_cache._dict) and "
                                          "dict_empty(self._request_callbacks) and dict_empty(self._netref_classes_cache) and "
                                          "isnil(self._send_queue.items)", P),
                   "serves_the_given_root_over_the_given_channel": ("same(self._local_root, root) and self._channel is channel and "
                                                                    "isnone(self._remote_root) and not self._closed", P),
                   "locks_free_and_numbers_from_zero": ("not self._sendlock.held and not self._recvlock.held and self._seqcounter.nxt == 0", P),
                   "the_callers_config_wins": ("config_overrides(self._config, config)", P)},
               raises={}, modifies=["self.*"])
