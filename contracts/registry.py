"""Contracts for rpyc/utils/registry.py (C18): the table of registrations against the abstract view `registered(name, addr)`,
notifications exactly once per actual change, and the robustness of the serving loop."""
F = "rpyc/utils/registry.py::RegistryServer."
P18 = ["C18"]


def register(S):
    S.declare_fields("RegistryServer", services="dict:dict", active="bool", pruning_timeout="val", logger="any", sock="any")
    for which in ("added", "removed"):
        S.external("hook_%s" % which, params={"self_arg": "any", "name": "val", "addrinfo": "val"}, result="none",
                   note="the on_service_%s hook (overridable): one ghost event; may raise anything" % which,
                   outcomes=[{"label": "ok", "events": [(which.capitalize(), "name", "addrinfo")]},
                             {"label": "fails", "raise": "Exception", "events": [(which.capitalize(), "name", "addrinfo")]},
                             {"label": "interrupted", "raise": "BaseException", "events": [(which.capitalize(), "name", "addrinfo")]}])
    HOOKS = {"self.on_service_added": "hook_added", "self.on_service_removed": "hook_removed", "self.logger.exception": "log",
             "self.logger.debug": "log", "self.logger.warn": "log"}
    KEYS = ["plain(name)", "plain(addrinfo)", "times_ok(self.services)"]
    INV = {"table_stays_well_formed": ("times_ok(self.services)", P18)}
    S.contract(F + "_add_service", params={"self": "obj:RegistryServer", "name": "val", "addrinfo": "val"},
               abstract_calls=HOOKS, requires=KEYS, clock=True,
               ensures={"table_stays_well_formed": ("times_ok(self.services)", P18), "registered_and_refreshed_now": (
                   "registered(self.services, name, addrinfo) and old(now()) <= refreshed_at(self.services, name, addrinfo) and "
                   "refreshed_at(self.services, name, addrinfo) <= now()", P18),
                   "notified_exactly_when_new": (
                       "n_ev('Added') == (0 if old(registered(self.services, name, addrinfo)) else 1) and n_events() == n_ev('Added') and "
                       "implies(n_ev('Added') == 1, same(ev_val('Added', 0, 1), name) and same(ev_val('Added', 0, 2), addrinfo))", P18),
                   "other_registrations_untouched": ("registrations_unchanged_except(self.services, name, addrinfo)", P18)},
               raises={"BaseException": {"props": P18, "state": ["not exc_is(exc, 'Exception')",
                                                                "registered(self.services, name, addrinfo)", "times_ok(self.services)"],
                                         "modifies": ["self.services"]}},
               modifies=["self.services"])
    S.contract(F + "_remove_service", params={"self": "obj:RegistryServer", "name": "val", "addrinfo": "val"},
               abstract_calls=HOOKS, requires=["times_ok(self.services)"],
               ensures={"table_stays_well_formed": ("times_ok(self.services)", P18),
                        "no_longer_registered": ("not registered(self.services, name, addrinfo)", P18),
                        # the statement: notifications fire exactly once per ACTUAL change of the membership
                        "notified_exactly_when_it_was_registered": (
                            "n_ev('Removed') == (1 if old(registered(self.services, name, addrinfo)) else 0) and "
                            "n_events() == n_ev('Removed') and "
                            "implies(n_ev('Removed') == 1, same(ev_val('Removed', 0, 1), name) and same(ev_val('Removed', 0, 2), addrinfo))", P18),
                        "other_registrations_untouched": ("registrations_unchanged_except(self.services, name, addrinfo)", P18)},
               raises={"KeyError": {"only_when": "not haskey(self.services, name)", "props": P18, "modifies": [],
                                    "state": ["n_events() == 0"]},
                       "BaseException": {"props": P18, "state": ["not exc_is(exc, 'Exception')",
                                                                "not registered(self.services, name, addrinfo)", "times_ok(self.services)"],
                                         "modifies": ["self.services"]}},
               modifies=["self.services"])


    # ---- the commands: interface contracts used by the serving loop (register / unregister are also verified below) -------
    CMD_RAISES = {"BaseException": {"props": P18, "state": ["times_ok(self.services)"], "modifies": ["self.services"]}}
    CMD_ENS = {"reply_is_encodable": ("plain(result) and sized(result)", P18), "table_stays_well_formed": ("times_ok(self.services)", P18)}
    S.contract(F + "cmd_query", params={"self": "obj:RegistryServer", "host": "val", "name": "val"}, result="val", trusted=True,
               note="ASSUMED (sorted() over a dict view with a key function; a proof attempt with quantified membership facts about the "
                    "sorted entry list stalled on quantifier instantiation - see DESIGN.md 9.6): answers with a plain tuple; may raise for a "
                    "malformed name; prunes stale registrations through _remove_service.  BOUNDED stand-in: registry_query_bounded",
               requires=["plain(host)", "plain(name)", "times_ok(self.services)"], ensures=CMD_ENS, raises=CMD_RAISES, modifies=["self.services"])
    S.external("join_names", params={"self_arg": "any", "parts": "val"}, result="str",
               note="', '.join(x): a text, or TypeError when x is not an iterable of texts", outcomes=[{"label": "ok"}, {"label": "fails", "raise": "TypeError"}])
    LOGJOIN = dict(HOOKS, **{"', '.join": "join_names"})
    S.contract(F + "cmd_register", params={"self": "obj:RegistryServer", "host": "val", "names": "val", "port": "val"}, result="val",
               abstract_calls=LOGJOIN, merge_iteration=True, dynamic_errors=True,
               requires=["plain(host)", "plain(names)", "plain(port)", "sized(host)", "sized(names)", "sized(port)", "times_ok(self.services)"],
               ensures=dict(CMD_ENS, answers_ok=("result == 'OK'", P18),
                            only_this_server_is_touched=("other_servers_untouched(self.services, pair(host, port))", P18)),
               raises=CMD_RAISES, modifies=["self.services"],
               loops={0: {"rest": "todo", "modifies": ["self.services"], "props": P18,
                          "invariant": ["times_ok(self.services)", "plain_list(todo)", "other_servers_untouched(self.services, pair(host, port))"],
                          # each name registers exactly (host, port) under its upper-case form - nothing else
                          "body_events": ["n_events() == n_callees('_add_service') and n_callees('_add_service') == 1",
                                          "implies(n_callees('_add_service') == 1, "
                                          "same(callee_arg('_add_service', 0, 'addrinfo'), pair(host, port)) and "
                                          "same(callee_arg('_add_service', 0, 'name'), upper_of(name)))"]}})
    S.contract(F + "cmd_unregister", params={"self": "obj:RegistryServer", "host": "val", "port": "val"}, result="val",
               abstract_calls=HOOKS, merge_iteration=True, dynamic_errors=True,
               requires=["plain(host)", "plain(port)", "times_ok(self.services)"],
               ensures=dict(CMD_ENS, answers_ok=("result == 'OK'", P18),
                            only_this_server_is_removed=("other_servers_untouched(self.services, pair(host, port))", P18)),
               raises=CMD_RAISES, modifies=["self.services"],
               loops={0: {"rest": "todo", "modifies": ["self.services"], "props": P18,
                          "invariant": ["times_ok(self.services)", "other_servers_untouched(self.services, pair(host, port))"],
                          # under each name exactly (host, port) is removed - never another server's registration
                          "body_events": ["n_events() == n_callees('_remove_service') and n_callees('_remove_service') == 1",
                                          "implies(n_callees('_remove_service') == 1, "
                                          "same(callee_arg('_remove_service', 0, 'addrinfo'), pair(host, port)) and "
                                          "same(callee_arg('_remove_service', 0, 'name'), name))"]}})

    # ---- the serving loop: nothing a datagram can contain stops it (only a non-Exception BaseException ends the loop) ------
    S.external("registry_recv", params={"self_arg": "any"}, result="val",
               note="RegistryServer._recv (abstract; UDP: recvfrom, TCP: accept + recv): a pair (data: bytes, address), or socket.error / "
                    "socket.timeout",
               outcomes=[{"label": "datagram", "assume": ["istuple(result)", "is_pair(result)", "isbytes(head(items(result)))",
                                                          "plain(result)", "sized(result)"]},
                         {"label": "timeout", "raise": "socket.timeout"}, {"label": "error", "raise": "socket.error"},
                         {"label": "interrupted", "raise": "BaseException"}])
    S.external("registry_send", params={"self_arg": "any", "data": "bytes", "addrinfo": "val"}, result="none",
               note="RegistryServer._send (abstract): both implementations swallow socket errors; ghost event Sent",
               outcomes=[{"label": "ok", "events": [("Sent", "data", "addrinfo")]}, {"label": "interrupted", "raise": "BaseException"}])
    S.contract(F + "_work", params={"self": "obj:RegistryServer"}, dynamic_errors=True,
               abstract_calls=dict(HOOKS, **{"self._recv": "registry_recv", "self._send": "registry_send"}),
               calls={"load": {"behaviour": "safety"}},
               requires=["times_ok(self.services)"],
               ensures={"table_stays_well_formed": ("times_ok(self.services)", P18)},
               # whatever arrives - wrong magic, unknown or non-text command, wrong argument count or types, undecodable bytes -
               # no Exception ends the loop (KeyboardInterrupt and the like do)
               raises={"BaseException": {"props": P18, "state": ["not exc_is(exc, 'Exception')", "times_ok(self.services)"],
                                         "modifies": ["self.services", "self.active"]}},
               modifies=["self.services", "self.active"],
               loops={0: {"modifies": ["self.services", "self.active"], "props": P18, "invariant": ["times_ok(self.services)"]}})
