"""Library models of the operating-system facing externals (trusted; listed in the evidence of
every run that used them).  The universally quantified behaviour of the transport lives here:
any fragmentation, any interleaving of timeouts / would-block, a failure at any call."""


def register(S):
    S.declare_fields("socket", inbuf="bytes", outbuf="bytes", shut_attempted="bool", closed="bool", has_timeout="bool",
                     failed="bool")   # ghost: the transport ended or failed for good (anything but timeout / would-block)
    S.declare_fields("pipefile", inbuf="bytes", outbuf="bytes", closed="bool", failed="bool")

    S.external("socket.recv", params={"self": "obj:socket", "k": "int"}, result="bytes", requires=["k > 0"],
               note="recv(k): any non-empty prefix of the pending input of length <= k, or b'' (end of stream), or "
                    "socket.timeout, or socket.error with any errno",
               outcomes=[
                   {"label": "data", "modifies": ["self.inbuf"],
                    "assume": ["0 < len(result)", "len(result) <= k", "old(self.inbuf) == result + self.inbuf"]},
                   {"label": "eof", "assume": ["result == empty()"], "sets": {"self.failed": "True"}},
                   {"label": "timeout", "raise": "socket.timeout", "info": {"errno": "val"}},
                   {"label": "would-block", "raise": "socket.error", "info": {"errno": "val"},
                    "when": ["exc.errno == errno.EAGAIN or exc.errno == errno.EWOULDBLOCK"]},
                   {"label": "error", "raise": "socket.error", "info": {"errno": "val"}, "sets": {"self.failed": "True"},
                    "when": ["not (exc.errno == errno.EAGAIN or exc.errno == errno.EWOULDBLOCK)"]},
               ])
    S.external("socket.send", params={"self": "obj:socket", "data": "bytes"}, result="int",
               note="send(b): the OS accepts any prefix of b (possibly all, possibly nothing) and returns its length, "
                    "or raises socket.error / socket.timeout having accepted nothing",
               outcomes=[
                   {"label": "sent", "modifies": ["self.outbuf"],
                    "assume": ["0 <= result", "result <= len(data)",
                               "startswith(data, sent_part(old(self.outbuf), self.outbuf))",
                               "len(sent_part(old(self.outbuf), self.outbuf)) == result",
                               "self.outbuf == old(self.outbuf) + sent_part(old(self.outbuf), self.outbuf)"]},
                   {"label": "timeout", "raise": "socket.timeout", "info": {"errno": "val"}, "sets": {"self.failed": "True"}},
                   {"label": "error", "raise": "socket.error", "info": {"errno": "val"}, "sets": {"self.failed": "True"}},
               ])
    S.external("socket.shutdown", params={"self": "obj:socket", "how": "any"}, result="none",
               note="shutdown(how): issues the shutdown (ghost flag shut_attempted) and may fail with any OSError",
               outcomes=[
                   {"label": "ok", "sets": {"self.shut_attempted": "True"}},
                   {"label": "error", "raise": "socket.error", "sets": {"self.shut_attempted": "True"}, "info": {"errno": "val"}},
               ])
    S.external("socket.close", params={"self": "obj:socket"}, result="none",
               note="close(): releases the descriptor (ghost flag closed); assumed not to raise",
               outcomes=[{"label": "ok", "sets": {"self.closed": "True"}}])
    S.external("socket.fileno", params={"self": "obj:socket"}, result="int", outcomes=[
        {"label": "ok", "wrap": "fd"}, {"label": "error", "raise": "socket.error", "info": {"errno": "val"}}])

    S.external("pipefile.fileno", params={"self": "obj:pipefile"}, result="int",
               note="fileno() of an open pipe end: its descriptor", outcomes=[{"label": "ok", "wrap": "fd"}])
    S.external("pipefile.close", params={"self": "obj:pipefile"}, result="none",
               note="close(): assumed not to raise", outcomes=[{"label": "ok", "sets": {"self.closed": "True"}}])
    S.external("os.read", params={"f": "obj:pipefile", "k": "int"}, result="bytes", requires=["k > 0"],
               note="os.read(fd, k) on a blocking pipe: a non-empty prefix of the pending input (<= k), b'' at end of "
                    "stream, or OSError",
               outcomes=[
                   {"label": "data", "modifies": ["f.inbuf"],
                    "assume": ["0 < len(result)", "len(result) <= k", "old(f.inbuf) == result + f.inbuf"]},
                   {"label": "eof", "assume": ["result == empty()"], "sets": {"f.failed": "True"}},
                   {"label": "error", "raise": "OSError", "info": {"errno": "val"}, "sets": {"f.failed": "True"}},
               ])
    S.external("os.write", params={"f": "obj:pipefile", "data": "bytes"}, result="int",
               note="os.write(fd, b): the OS accepts a prefix of b and returns its length, or raises OSError",
               outcomes=[
                   {"label": "written", "modifies": ["f.outbuf"],
                    "assume": ["0 <= result", "result <= len(data)",
                               "startswith(data, sent_part(old(f.outbuf), f.outbuf))",
                               "len(sent_part(old(f.outbuf), f.outbuf)) == result",
                               "f.outbuf == old(f.outbuf) + sent_part(old(f.outbuf), f.outbuf)"]},
                   {"label": "error", "raise": "OSError", "info": {"errno": "val"}, "sets": {"f.failed": "True"}},
               ])
    S.external("zlib.compress", params={"data": "bytes", "level": "int"}, result="bytes", defaults={"level": -1},
               note="zlib.compress: some byte string that zlib.decompress maps back to the input",
               outcomes=[{"label": "ok", "assume": ["result == zcomp(data, level)"]}])
    S.external("zlib.decompress", params={"data": "bytes"}, result="bytes",
               note="zlib.decompress: inverse of compress on its image; zlib.error on anything it rejects",
               outcomes=[{"label": "ok", "when": ["zvalid(data)"], "assume": ["result == zdecomp(data)"]},
                         {"label": "corrupt", "raise": "zlib.error", "when": ["not zvalid(data)"]}])

    # threading.Lock, sequential semantics (A-SEQ): `held` is ghost state; only the non-blocking acquire used by
    # Connection._send is modelled (a blocking acquire of a held lock on the same thread would deadlock)
    S.declare_fields("Lock", held="bool")
    S.external("Lock.acquire", params={"self": "obj:Lock", "blocking": "bool"}, result="bool", defaults={"blocking": True},
               note="Lock.acquire(False): takes the lock and returns True if it is free, else returns False",
               requires=["not blocking or not self.held"],
               outcomes=[{"label": "got", "when": ["not self.held"], "sets": {"self.held": "True"}, "assume": ["result == True"],
                          "events": [("LockTaken", "self")]},
                         {"label": "busy", "when": ["self.held"], "assume": ["result == False"]}])
    S.external("Lock.release", params={"self": "obj:Lock"}, result="none", requires=["self.held"],
               note="Lock.release() of a held lock", outcomes=[{"label": "ok", "sets": {"self.held": "False"}}])
