"""Contracts for rpyc/core/channel.py (Channel.send / recv / close / closed).
The stream field is declared with SocketStream's interface contract; PipeStream's read/write/
close contracts have the same shape (checked by `interface-conformance` in the C05 plan)."""
F = "rpyc/core/channel.py::"
P5 = ["C05", "C19", "C08", "C11", "C12"]

OUT = "self.stream.sock"


def register(S):
    S.declare_fields("Channel", stream="obj:SocketStream", compress="bool")
    S.contract(F + "Channel.send", params={"self": "obj:Channel", "data": "bytes"},
               dispatch=[("self.stream.sock is ClosedFile", "closed"), (None, "default")],
               behaviours={"closed": dict(init={"self.stream.sock": "ClosedFile"}, noreturn=True,
                                          # sending on a closed channel always fails (a frame is never empty)
                                          raises={"EOFError": {"state": ["self.stream.sock is ClosedFile"],
                                                               "props": ["C11", "C08"], "modifies": []},
                                                  "struct.error": {"only_when": "not fits_sent(data, self.compress)", "props": ["C11"],
                                                                   "modifies": []}},
                                          modifies=[], reveal=["frame"])},
               requires=["self.stream.sock is not ClosedFile", "not self.stream.sock.failed"],
               reveal=["frame"], returns_when=["fits_sent(data, self.compress)"],
               ensures={"writes_exactly_one_frame": (
                   "old(self.stream.sock).outbuf == old(self.stream.sock.outbuf) + frame(data, True) or "
                   "old(self.stream.sock).outbuf == old(self.stream.sock.outbuf) + frame(data, False)",
                   ["C05", "C08", "C11", "C12"]),
                   "writes_the_published_frame": (
                   "old(self.stream.sock).outbuf == old(self.stream.sock.outbuf) + "
                   "frame(data, published_flag(data, self.compress))", ["C19"]),
                   "still_open": ("self.stream.sock is old(self.stream.sock)", P5)},
               # the length field has 32 bits.  Which form of the packet has to fit depends on the compression threshold: that is
               # C19's business (the published format); for delivery (C05 and the others) a refusal is acceptable whenever one of
               # the two forms does not fit
               raises={"struct.error": {"only_when": "not fits_sent(data, self.compress)", "only_when_props": ["C19"],
                                        "only_when_also": [("not fits(data)", ["C05", "C08", "C11", "C12"])],
                                        "props": P5, "modifies": [],
                                        "state": ["self.stream.sock is old(self.stream.sock)",
                                                  "self.stream.sock.outbuf == old(self.stream.sock.outbuf)"]},
                       "EOFError": {"state": ["self.stream.sock is ClosedFile", "old(self.stream.sock).failed"], "props": P5,
                                    "sets": {"self.stream.sock": "ClosedFile"},
                                    "modifies": ["self.stream.sock", "self.stream.sock.outbuf",
                                                 "self.stream.sock.shut_attempted", "self.stream.sock.closed",
                                                 "self.stream.sock.failed"]}},
               modifies=["self.stream.sock.outbuf"])
    S.contract(F + "Channel.recv", params={"self": "obj:Channel"}, result="bytes", behaviours={
        "roundtrip": dict(
            ghost={"d": "bytes", "c": "bool", "rest": "bytes"}, reveal=["frame"],
            native_build="{'self': mkchannel(frame(d, c) + rest)}",
            requires=["self.stream.sock is not ClosedFile", "not self.stream.sock.failed",
                      "self.stream.sock.inbuf == frame(d, c) + rest", "fits(d)"],
            ensures={"returns_the_packet": ("result == d", P5),
                     "consumes_exactly_one_frame": ("old(self.stream.sock).inbuf == rest", P5),
                     "still_open": ("self.stream.sock is old(self.stream.sock)", P5)},
            raises={"EOFError": {"state": ["self.stream.sock is ClosedFile", "old(self.stream.sock).failed"], "props": P5,
                                 "sets": {"self.stream.sock": "ClosedFile"},
                                 "modifies": ["self.stream.sock", "self.stream.sock.inbuf",
                                              "self.stream.sock.shut_attempted", "self.stream.sock.closed",
                                              "self.stream.sock.failed"]}},
            modifies=["self.stream.sock.inbuf"]),
        # arbitrary input (garbage on the wire): some bytes, or EOFError + closed, or a decoding error
        "safety": dict(
            requires=["self.stream.sock is not ClosedFile", "not self.stream.sock.failed"], ensures={},
            raises={"EOFError": {"state": ["self.stream.sock is ClosedFile", "old(self.stream.sock).failed"],
                                 "props": ["C16", "C11"], "sets": {"self.stream.sock": "ClosedFile"},
                                 "modifies": ["self.stream.sock", "self.stream.sock.inbuf",
                                              "self.stream.sock.shut_attempted", "self.stream.sock.closed",
                                              "self.stream.sock.failed"]},
                    "zlib.error": {"props": ["C16"], "modifies": ["self.stream.sock.inbuf"]}},
            modifies=["self.stream.sock.inbuf"]),
    })


    @S.composition("C05/sequence-step", ["C05", "C19"])
    def sequence_step(K):
        """what send() appended at the writer, delivered as the reader's pending input (A-FIFO) followed by any
        later bytes, is returned by one recv() as exactly that packet, leaving exactly the later bytes:
        the induction step of `n sends are received as the same n packets, in order`"""
        d, r, rest, later = K.fresh("d", "bytes"), K.fresh("r", "bytes"), K.fresh("rest", "bytes"), K.fresh("later", "bytes")
        wrote, c = K.fresh("wrote", "bytes"), K.fresh("c", "bool")
        hyps = [K.expr("fits(d)", {"d": d}),
                # Channel.send.writes_exactly_one_frame, with `wrote` = outbuf' minus outbuf
                K.expr("wrote == frame(d, True) or wrote == frame(d, False)", {"wrote": wrote, "d": d}),
                K.expr("implies(c, wrote == frame(d, True)) and implies(not c, wrote == frame(d, False))",
                       {"wrote": wrote, "d": d, "c": c})]
        K.uses(F + "Channel.send", "default", "ensures:writes_exactly_one_frame")
        # Channel.recv[roundtrip] instantiated with ghost (d, c, later) on input wrote ++ later
        inbuf_after = K.fresh("inbuf_after", "bytes")
        hyps.append(K.z3.Implies(K.expr("wrote + later == frame(d, c) + later and fits(d)", {"wrote": wrote, "later": later, "d": d, "c": c}),
                                 K.expr("r == d and inbuf_after == later", {"r": r, "d": d, "inbuf_after": inbuf_after, "later": later})))
        K.uses(F + "Channel.recv", "roundtrip", "ensures:returns_the_packet")
        K.uses(F + "Channel.recv", "roundtrip", "ensures:consumes_exactly_one_frame")
        return [("holds", hyps, K.expr("r == d and inbuf_after == later", {"r": r, "d": d, "inbuf_after": inbuf_after, "later": later}))]
