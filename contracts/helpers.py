"""Contracts for rpyc/utils/helpers.py: the asynchronous and timed call wrappers (C15, C01)."""
F = "rpyc/utils/helpers.py::"
P = ["C15", "C01"]


def register(S):
    S.declare_fields("_Async", proxy="val")
    S.declare_fields("timed", proxy="obj:_Async", timeout="val")
    KW = "tuple_of(dict_items(kwargs))"
    ONE = ("n_callees('asyncreq') == 1 and n_events() == 1 and same(callee_arg('asyncreq', 0, 'proxy'), self.proxy) and "
           "same(callee_arg('asyncreq', 0, 'handler'), val(HANDLE_CALL)) and "
           "callee_arg('asyncreq', 0, 'args') == cons(mktuple(args), cons(%s, nil()))" % KW)
    S.contract(F + "_Async.__call__", params={"self": "obj:_Async", "args": "vl", "kwargs": "dict"}, result="val",
               requires=["is_netref(self.proxy)"],
               ensures={"one_asynchronous_call_with_exactly_these_arguments": (ONE, P),
                        "returns_the_pending_result": ("same(result, callee_result('asyncreq', 0))", P)},
               raises={"BaseException": {"props": P, "state": [ONE]}}, modifies=[])
    # a timed call = the asynchronous call, then the expiry set to exactly the wrapper's timeout, once
    TIMED = ("n_callees('__call__') == 1 and n_ev('GetAttr') == 1 and n_calls() == 1 and n_events() == 3 and "
             "callee_arg('__call__', 0, 'self') is self.proxy and callee_arg('__call__', 0, 'args') == args and "
             "same(ev_val('GetAttr', 0, 1), callee_result('__call__', 0)) and ev_val('GetAttr', 0, 2) == 'set_expiry' and "
             "same(call_fn(0), ev_val('GetAttr', 0, 3)) and call_args(0) == cons(self.timeout, nil())")
    S.contract(F + "timed.__call__", params={"self": "obj:timed", "args": "vl", "kwargs": "dict"}, result="val",
               requires=["is_netref(self.proxy.proxy)"], effects={"normal": 1, "raise": (0, 1)},
               ensures={"asynchronous_call_then_expiry_from_the_wrappers_timeout": (TIMED, P),
                        "returns_that_result": ("same(result, callee_result('__call__', 0))", P)},
               raises={"BaseException": {"props": P, "state": ["n_callees('__call__') == 1 and n_calls() <= 1"]}}, modifies=["**"])

    # ---- restricted(): a view that permits exactly the listed names (C06) ------------------------------------------------------
    # the two hooks are closures over `obj`, `attrs` and `wattrs` (free variables: any values); membership in a name list is the
    # pure predicate val_contains(list, name)
    R = F + "restricted.<locals>.Restricted."
    S.contract(R + "_rpyc_getattr", params={"self": "val", "name": "val"}, result="val", free={"attrs": "val", "wattrs": "val", "obj": "val"},
               dynamic_errors=True, effects={"normal": (0, 0), "raise": (0, 0)}, returns_when=["val_contains(attrs, name)"],
               ensures={"reads_only_a_listed_name_of_the_wrapped_object": (
                   "val_contains(attrs, name) and n_ev('GetAttr') == 1 and same(ev_val('GetAttr', 0, 1), obj) and "
                   "same(ev_val('GetAttr', 0, 2), name) and same(result, ev_val('GetAttr', 0, 3)) and n_events() == 1", ["C06"])},
               raises={"BaseException": {"props": ["C06"], "modifies": [], "state": [
                   # an unlisted name: AttributeError, and the wrapped object is not touched
                   "implies(not val_contains(attrs, name), exc_is(exc, 'AttributeError') and n_events() == 0)",
                   "n_ev('GetAttr') == n_events() and n_events() <= 1"]}}, modifies=[])
    S.contract(R + "_rpyc_setattr", params={"self": "val", "name": "val", "value": "val"}, free={"attrs": "val", "wattrs": "val", "obj": "val"},
               dynamic_errors=True, effects={"normal": (0, 0), "raise": (0, 0)}, returns_when=["val_contains(wattrs, name)"],
               ensures={"writes_only_a_listed_name_of_the_wrapped_object": (
                   "val_contains(wattrs, name) and n_ev('SetAttr') == 1 and same(ev_val('SetAttr', 0, 1), obj) and "
                   "same(ev_val('SetAttr', 0, 2), name) and same(ev_val('SetAttr', 0, 4), value) and n_events() == 1", ["C06"])},
               raises={"BaseException": {"props": ["C06"], "modifies": [], "state": [
                   "implies(not val_contains(wattrs, name), exc_is(exc, 'AttributeError') and n_events() == 0)",
                   "n_ev('SetAttr') == n_events() and n_events() <= 1"]}}, modifies=[])
    # restricted() itself: the view's read hook sees exactly `attrs` and `obj`, its write hook sees `wattrs` - or `attrs` when (and
    # only when) wattrs is None: an EMPTY write list stays empty (docs: "to disable setting attributes completely") - and the
    # Python-level __getattr__ / __setattr__ are the same two hooks; building the view touches nothing
    S.contract(F + "restricted", params={"obj": "val", "attrs": "val", "wattrs": "val"}, result="any", dynamic_errors=True,
               effects={"normal": (0, 0), "raise": (0, 0)},
               ensures={"read_list": ("same(hook_free(result, '_rpyc_getattr', 'attrs'), attrs) and same(hook_free(result, '_rpyc_getattr', 'obj'), obj)", ["C06"]),
                        "write_list": ("same(hook_free(result, '_rpyc_setattr', 'wattrs'), attrs if wattrs is None else wattrs) and "
                                       "same(hook_free(result, '_rpyc_setattr', 'obj'), obj)", ["C06"]),
                        "exactly_these_hooks": ("hook_names(result) == ('__getattr__', '__setattr__', '_rpyc_getattr', '_rpyc_setattr') and "
                                                "hook_is(result, '__getattr__', '_rpyc_getattr') and hook_is(result, '__setattr__', '_rpyc_setattr')", ["C06"]),
                        "nothing_is_touched": ("n_events() == 0", ["C06"])},
               raises={}, modifies=[])
