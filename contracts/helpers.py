"""Contracts for rpyc/utils/helpers.py: the asynchronous and timed call wrappers (C15, C01)."""
F = "rpyc/utils/helpers.py::"
P = ["C15", "C01"]


def register(S):
    S.declare_fields("_Async", proxy="val")
    S.declare_fields("timed", proxy="obj:_Async", timeout="val")
    KW = "tuple_of(dict_items(kwargs))"
    ONE = ("n_callees('asyncreq') == 1 and n_events() == 1 and same(callee_arg('asyncreq', 0, 'proxy'), self.proxy) and "
           "same(callee_arg('asyncreq', 0, 'handler'), val(HANDLE_CALL)) and "
           "callee_arg('asyncreq', 0, 'args') == cons(mktuple(args), cons(%s, nil()))" % KW)
    S.contract(F + "_Async.__call__", params={"self": "obj:_Async", "args": "vl", "kwargs": "dict"}, result="val",
               requires=["is_netref(self.proxy)"],
               ensures={"one_asynchronous_call_with_exactly_these_arguments": (ONE, P),
                        "returns_the_pending_result": ("same(result, callee_result('asyncreq', 0))", P)},
               raises={"BaseException": {"props": P, "state": [ONE]}}, modifies=[])
    # a timed call = the asynchronous call, then the expiry set to exactly the wrapper's timeout, once
    TIMED = ("n_callees('__call__') == 1 and n_ev('GetAttr') == 1 and n_calls() == 1 and n_events() == 3 and "
             "callee_arg('__call__', 0, 'self') is self.proxy and callee_arg('__call__', 0, 'args') == args and "
             "same(ev_val('GetAttr', 0, 1), callee_result('__call__', 0)) and ev_val('GetAttr', 0, 2) == 'set_expiry' and "
             "same(call_fn(0), ev_val('GetAttr', 0, 3)) and call_args(0) == cons(self.timeout, nil())")
    S.contract(F + "timed.__call__", params={"self": "obj:timed", "args": "vl", "kwargs": "dict"}, result="val",
               requires=["is_netref(self.proxy.proxy)"], effects={"normal": 1, "raise": (0, 1)},
               ensures={"asynchronous_call_then_expiry_from_the_wrappers_timeout": (TIMED, P),
                        "returns_that_result": ("same(result, callee_result('__call__', 0))", P)},
               raises={"BaseException": {"props": P, "state": ["n_callees('__call__') == 1 and n_calls() <= 1"]}}, modifies=["**"])
