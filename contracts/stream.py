"""Contracts for rpyc/core/stream.py: SocketStream / PipeStream read, write, close, closed; ClosedFile.
Ghost state: each socket / pipe end carries `inbuf` (bytes still to arrive) and `outbuf`
(bytes accepted by the OS so far); see contracts/externals.py for the transport's behaviour."""
F = "rpyc/core/stream.py::"
P5 = ["C05", "C11", "C16", "C19"]


def register(S):
    S.declare_fields("SocketStream", sock="obj:socket")
    S.declare_fields("PipeStream", incoming="obj:pipefile", outgoing="obj:pipefile")

    S.contract(F + "ClosedFile.close", params={"self": "any"}, inline=True, note="`pass`")
    S.contract(F + "ClosedFile.fileno", params={"self": "any"},
               noreturn=True, raises={"EOFError": {"props": P5}}, modifies=[])
    S.contract(F + "SocketStream.closed", params={"self": "obj:SocketStream"}, inline=True,
               note="one-line property `self.sock is ClosedFile`")
    S.contract(F + "PipeStream.closed", params={"self": "obj:PipeStream"}, inline=True,
               note="one-line property `self.incoming is ClosedFile`")

    # ---- SocketStream ------------------------------------------------------------------------------
    S.contract(F + "SocketStream.close", params={"self": "obj:SocketStream"},
               dispatch=[("self.sock is ClosedFile", "closed"), (None, "open")],
               behaviours={
                   "open": dict(requires=["self.sock is not ClosedFile"],
                                ensures={"closed": ("self.sock is ClosedFile", P5 + ["C17"]),
                                         "shutdown_issued": ("old(self.sock).shut_attempted", ["C11", "C17"]),
                                         "descriptor_closed": ("old(self.sock).closed", ["C11", "C17"]),
                                         "bytes_untouched": ("old(self.sock).outbuf == old(self.sock.outbuf) and "
                                                             "old(self.sock).inbuf == old(self.sock.inbuf)", ["C05"])},
                                raises={}, modifies=["self.sock", "self.sock.shut_attempted", "self.sock.closed"],
                                sets={"self.sock": "ClosedFile"}),
                   "closed": dict(init={"self.sock": "ClosedFile"},
                                  ensures={"closed": ("self.sock is ClosedFile", P5 + ["C17"])}, raises={}, modifies=[]),
               })
    S.contract(F + "SocketStream.read", params={"self": "obj:SocketStream", "count": "int"}, result="bytes",
               requires=["self.sock is not ClosedFile", "not self.sock.failed"],
               ensures={"exactly_next_count_bytes": ("result + old(self.sock).inbuf == old(self.sock.inbuf) and "
                                                     "len(result) == max(count, 0)", P5),
                        "still_open": ("self.sock is old(self.sock)", P5)},
               # EOFError only if the transport really ended or failed: timeouts / would-block are retried
               raises={"EOFError": {"state": ["self.sock is ClosedFile", "old(self.sock).closed", "old(self.sock).failed"],
                                    "sets": {"self.sock": "ClosedFile"}, "props": P5,
                                    "modifies": ["self.sock", "self.sock.inbuf", "self.sock.shut_attempted",
                                                 "self.sock.closed", "self.sock.failed"]}},
               modifies=["self.sock.inbuf"],
               loops={0: {"modifies": ["self.sock.inbuf"], "havoc": {"buf": "bytes", "ex": "any"},
                          "props": P5,
                          "invariant": ["join(data) + self.sock.inbuf == old(self.sock.inbuf)",
                                        "len(join(data)) + count == old(count)",
                                        "implies(old(count) >= 0, count >= 0)",
                                        "implies(old(count) < 0, count == old(count))",
                                        "self.sock is old(self.sock)", "not self.sock.failed",
                                        "self.sock.closed == old(self.sock.closed)",
                                        "self.sock.shut_attempted == old(self.sock.shut_attempted)"]}})
    S.contract(F + "SocketStream.write", params={"self": "obj:SocketStream", "data": "bytes"},
               dispatch=[("self.sock is ClosedFile", "closed"), (None, "default")],
               behaviours={"closed": dict(init={"self.sock": "ClosedFile"},
                                          # writing to a closed stream: EOFError (nothing to write is a no-op)
                                          returns_when=["len(data) == 0"],
                                          raises={"EOFError": {"state": ["self.sock is ClosedFile"], "props": ["C11", "C08"],
                                                               "modifies": []}},
                                          modifies=[], loops={0: {"invariant": ["self.sock is ClosedFile", "data == old(data)"]}})},
               requires=["self.sock is not ClosedFile", "not self.sock.failed"],
               ensures={"all_bytes_in_order": ("old(self.sock).outbuf == old(self.sock.outbuf) + data", P5),
                        "still_open": ("self.sock is old(self.sock)", P5)},
               raises={"EOFError": {"state": ["self.sock is ClosedFile", "old(self.sock).closed", "old(self.sock).failed",
                                              # never foreign bytes: what went out is old output plus a prefix of data
                                              "startswith(old(self.sock.outbuf) + data, old(self.sock).outbuf)",
                                              "startswith(old(self.sock).outbuf, old(self.sock.outbuf))"],
                                    "sets": {"self.sock": "ClosedFile"}, "props": P5,
                                    "modifies": ["self.sock", "self.sock.outbuf", "self.sock.shut_attempted",
                                                 "self.sock.closed", "self.sock.failed"]}},
               modifies=["self.sock.outbuf"],
               loops={0: {"modifies": ["self.sock.outbuf"], "havoc": {"count": "int"},
                          "invariant": ["self.sock.outbuf + data == old(self.sock.outbuf) + old(data)",
                                        "startswith(self.sock.outbuf, old(self.sock.outbuf))",
                                        "self.sock is old(self.sock)", "not self.sock.failed",
                                        "self.sock.closed == old(self.sock.closed)",
                                        "self.sock.shut_attempted == old(self.sock.shut_attempted)"]}})

    # ---- PipeStream --------------------------------------------------------------------------------
    S.contract(F + "PipeStream.close", params={"self": "obj:PipeStream"},
               dispatch=[("self.incoming is ClosedFile", "closed"), (None, "open")],
               behaviours={
                   "open": dict(requires=["self.incoming is not ClosedFile", "self.outgoing is not ClosedFile"],
                                ensures={"closed": ("self.incoming is ClosedFile and self.outgoing is ClosedFile", P5),
                                         "ends_closed": ("old(self.incoming).closed and old(self.outgoing).closed", ["C11"]),
                                         "bytes_untouched": ("old(self.outgoing).outbuf == old(self.outgoing.outbuf) and "
                                                             "old(self.incoming).inbuf == old(self.incoming.inbuf)", ["C05"])},
                                raises={}, modifies=["self.incoming", "self.outgoing", "self.incoming.closed",
                                                     "self.outgoing.closed"],
                                sets={"self.incoming": "ClosedFile", "self.outgoing": "ClosedFile"}),
                   "closed": dict(init={"self.incoming": "ClosedFile", "self.outgoing": "ClosedFile"},
                                  ensures={"closed": ("self.incoming is ClosedFile", P5)}, raises={}, modifies=[]),
               })
    S.contract(F + "PipeStream.read", params={"self": "obj:PipeStream", "count": "int"}, result="bytes",
               requires=["self.incoming is not ClosedFile", "self.outgoing is not ClosedFile", "not self.incoming.failed"],
               ensures={"exactly_next_count_bytes": ("result + old(self.incoming).inbuf == old(self.incoming.inbuf) and "
                                                     "len(result) == max(count, 0)", P5),
                        "still_open": ("self.incoming is old(self.incoming)", P5)},
               raises={"EOFError": {"state": ["self.incoming is ClosedFile", "old(self.incoming).closed",
                                              "old(self.incoming).failed"], "props": P5,
                                    "sets": {"self.incoming": "ClosedFile", "self.outgoing": "ClosedFile"},
                                    "modifies": ["self.incoming", "self.outgoing", "self.incoming.inbuf",
                                                 "self.incoming.closed", "self.outgoing.closed", "self.incoming.failed"]}},
               modifies=["self.incoming.inbuf"],
               loops={0: {"modifies": ["self.incoming.inbuf"], "havoc": {"buf": "bytes"},
                          "invariant": ["join(data) + self.incoming.inbuf == old(self.incoming.inbuf)",
                                        "len(join(data)) + count == old(count)",
                                        "implies(old(count) >= 0, count >= 0)",
                                        "implies(old(count) < 0, count == old(count))",
                                        "self.incoming is old(self.incoming)", "self.outgoing is old(self.outgoing)",
                                        "not self.incoming.failed",
                                        "self.incoming.closed == old(self.incoming.closed)",
                                        "self.outgoing.closed == old(self.outgoing.closed)"]}})
    S.contract(F + "PipeStream.write", params={"self": "obj:PipeStream", "data": "bytes"},
               requires=["self.incoming is not ClosedFile", "self.outgoing is not ClosedFile", "not self.outgoing.failed"],
               ensures={"all_bytes_in_order": ("old(self.outgoing).outbuf == old(self.outgoing.outbuf) + data", P5),
                        "still_open": ("self.outgoing is old(self.outgoing)", P5)},
               raises={"EOFError": {"state": ["self.incoming is ClosedFile", "old(self.outgoing).closed", "old(self.outgoing).failed",
                                              "startswith(old(self.outgoing.outbuf) + data, old(self.outgoing).outbuf)",
                                              "startswith(old(self.outgoing).outbuf, old(self.outgoing.outbuf))"],
                                    "props": P5,
                                    "sets": {"self.incoming": "ClosedFile", "self.outgoing": "ClosedFile"},
                                    "modifies": ["self.incoming", "self.outgoing", "self.outgoing.outbuf",
                                                 "self.incoming.closed", "self.outgoing.closed", "self.outgoing.failed"]}},
               modifies=["self.outgoing.outbuf"],
               loops={0: {"modifies": ["self.outgoing.outbuf"], "havoc": {"chunk": "bytes", "written": "int"},
                          "invariant": ["self.outgoing.outbuf + data == old(self.outgoing.outbuf) + old(data)",
                                        "startswith(self.outgoing.outbuf, old(self.outgoing.outbuf))",
                                        "self.incoming is old(self.incoming)", "self.outgoing is old(self.outgoing)",
                                        "not self.outgoing.failed",
                                        "self.incoming.closed == old(self.incoming.closed)",
                                        "self.outgoing.closed == old(self.outgoing.closed)"]}})
