"""Contracts for rpyc/lib/__init__.py: get_id_pack (C03.7)"""
F = "rpyc/lib/__init__.py::"


def register(S):
    S.contract(F + "get_id_pack", params={"obj": "val"}, result="val", effect_free=True,
               # for every object shape (instance, class, module, proxy): total, and the answer is a plain id pack.
               # The abstract function id_pack(obj) (uninterpreted) names the answer for callers.
               ensures={"is_an_id_pack": ("is_id_pack(result) or (is_netref_like(obj) and same(result, netref_idpack(obj)))",
                                          ["C03", "C10", "C07"]),
                        "plain_and_encodable": ("plain(result) and sized(result)", ["C03", "C08", "C01"]),
                        # T-ID: the answer is a function of the object (and differs for simultaneously live objects)
                        "assumed_deterministic": ("same(result, id_pack(obj))", ["C03", "C10"])},
               raises={}, modifies=[], unfold_depth=3)
