"""Contracts for rpyc/core/netref.py (C02 forwarding table, C10 finalizer, C01 call forwarding):
every special method of a proxy performs exactly one request on the proxy's own connection with the handler
and the arguments the forwarding table says (ghost Request event), and returns its result."""
F = "rpyc/core/netref.py::"
B = F + "BaseNetref."
P2 = ["C02", "C01"]


def register(S):
    for name, kind in (("syncreq", "sync_request"), ("asyncreq", "async_request")):
        ok = ("n_requests() == 1 and n_events() == 1 and request_kind(0) == '%s' and same(request_conn(0), netref_conn(proxy)) "
              "and request_args(0) == cons(handler, cons(proxy, args))" % kind)
        S.contract(F + name, params={"proxy": "val", "handler": "val", "args": "vl"}, result="val",
                   requires=["is_netref(proxy)"],
                   ensures={"one_request_on_the_proxys_connection": (ok, P2 + ["C10"]),
                            "returns_its_result": ("same(result, request_result(0))", P2)},
                   raises={"BaseException": {"props": P2, "state": [ok]}}, modifies=[])

    # ---- the forwarding table: method -> (handler constant, extra arguments) --------------------------------------
    def fwd(method, handler, params, extra, result_transform=None):
        ps = {"self": "val"}
        ps.update(params)
        ok = ("n_callees('syncreq') == 1 and n_events() == 1 and same(callee_arg('syncreq', 0, 'proxy'), self) and "
              "same(callee_arg('syncreq', 0, 'handler'), val(%s)) and callee_arg('syncreq', 0, 'args') == %s" % (handler, extra))
        ens = {"forwards_exactly_this_operation": (ok, P2)}
        if result_transform is None:
            ens["returns_its_result"] = ("same(result, callee_result('syncreq', 0))", P2)
        S.contract(B + method, params=ps, result="val", requires=["is_netref(self)"], ensures=ens,
                   raises={"BaseException": {"props": P2, "state": [ok]}}, modifies=[])

    NIL = "nil()"
    fwd("__hash__", "HANDLE_HASH", {}, NIL)
    fwd("__repr__", "HANDLE_REPR", {}, NIL)
    fwd("__str__", "HANDLE_STR", {}, NIL)
    fwd("__dir__", "HANDLE_DIR", {}, NIL, result_transform="list")
    fwd("__cmp__", "HANDLE_CMP", {"other": "val"}, "cons(other, cons(mkstr('__cmp__'), nil()))")
    for op in ("eq", "ne", "lt", "gt", "le", "ge"):
        fwd("__%s__" % op, "HANDLE_CMP", {"other": "val"}, "cons(other, cons(mkstr('__%s__'), nil()))" % op)
    fwd("__exit__", "HANDLE_CTXEXIT", {"exc": "val", "typ": "val", "tb": "val"}, "cons(exc, nil())")

    # the finalizer: one release notice carrying the proxy's WHOLE count; failures are swallowed
    DEL_OK = ("n_callees('asyncreq') == 1 and n_events() == 1 and same(callee_arg('asyncreq', 0, 'proxy'), self) and "
              "same(callee_arg('asyncreq', 0, 'handler'), val(HANDLE_DEL)) and "
              "callee_arg('asyncreq', 0, 'args') == cons(val(old(refcount(self))), nil())")
    S.contract(B + "__del__", params={"self": "val"}, requires=["is_netref(self)"],
               ensures={"one_release_notice_with_the_whole_count": (DEL_OK, ["C10", "C02"])},
               raises={"BaseException": {"props": ["C10"], "state": [DEL_OK, "not exc_is(exc, 'Exception')"]}}, modifies=[])

    # ---- attribute access: local names stay local (no request at all); every other name is one request -------------
    GET = ("n_callees('syncreq') == 1 and n_events() == 1 and same(callee_arg('syncreq', 0, 'proxy'), self) and "
           "same(callee_arg('syncreq', 0, 'handler'), val(%s)) and callee_arg('syncreq', 0, 'args') == %s")
    NOREQ = "n_callees('syncreq') == 0 and n_requests() == 0"
    S.contract(B + "__getattr__", params={"self": "val", "name": "str"}, result="val",
               dispatch=[("name in DELETED_ATTRS", "deleted"), (None, "forwarded")], behaviours={
                   "deleted": dict(modifies=[], requires=["is_netref(self)", "name in DELETED_ATTRS"], noreturn=True,
                                   raises={"AttributeError": {"props": ["C02"], "state": ["n_events() == 0"]}}),
                   "forwarded": dict(modifies=[], requires=["is_netref(self)", "name not in DELETED_ATTRS"],
                                     ensures={"forwards_exactly_this_operation": (GET % ("HANDLE_GETATTR", "cons(val(name), nil())"), P2),
                                              "returns_its_result": ("same(result, callee_result('syncreq', 0))", P2)},
                                     raises={"BaseException": {"props": P2, "state": [GET % ("HANDLE_GETATTR", "cons(val(name), nil())")]}}),
               })
    S.contract(B + "__getattribute__", params={"self": "val", "name": "str"}, result="val",
               self_methods={"__getattr__": "'__getattr__' is in LOCAL_ATTRS, so the lookup is object.__getattribute__ on the class, and "
                                            "class_factory never defines a LOCAL_ATTRS name on a generated proxy class"}, behaviours={
                   "remote_name": dict(modifies=[], requires=["is_netref(self)", "name not in LOCAL_ATTRS", "name != '__call__'", "name != '__array__'"],
                                       ensures={"forwards_exactly_this_operation": (GET % ("HANDLE_GETATTR", "cons(val(name), nil())"), P2),
                                                "returns_its_result": ("same(result, callee_result('syncreq', 0))", P2)},
                                       raises={"BaseException": {"props": P2, "state": [GET % ("HANDLE_GETATTR", "cons(val(name), nil())")]}}),
                   "local_slot": dict(modifies=[], requires=["is_netref(self)", "name in LOCAL_ATTRS", "name != '__class__'", "name != '__doc__'", "name not in DELETED_ATTRS"],
                                      ensures={"no_request_for_a_local_name": (NOREQ + " and n_local() == 1", P2)},
                                      raises={"AttributeError": {"props": P2, "state": [NOREQ]}}),
                   "deleted": dict(modifies=[], requires=["is_netref(self)", "name in DELETED_ATTRS"], noreturn=True,
                                   raises={"AttributeError": {"props": P2, "state": ["n_events() == 0"]}}),
                   "doc": dict(modifies=[], requires=["is_netref(self)", "name == '__doc__'"],
                               ensures={"doc_is_the_remote_doc": (
                                   "n_callees('__getattr__') == 1 and n_events() == 1 and "
                                   "callee_arg('__getattr__', 0, 'name') == '__doc__' and "
                                   "same(result, callee_result('__getattr__', 0))", P2)},
                               raises={"BaseException": {"props": P2, "state": ["n_callees('__getattr__') == 1 and n_events() == 1"]}}),
                   "call_and_array": dict(modifies=[], requires=["is_netref(self)", "name == '__call__' or name == '__array__'"],
                                          ensures={"no_request_for_a_local_name": (NOREQ + " and n_local() == 1", P2)},
                                          raises={"AttributeError": {"props": P2, "state": [NOREQ]}}),
               })
    for meth, handler, params, extra in (
            ("__delattr__", "HANDLE_DELATTR", {"name": "str"}, "cons(val(name), nil())"),
            ("__setattr__", "HANDLE_SETATTR", {"name": "str", "value": "val"}, "cons(val(name), cons(value, nil()))")):
        ps = {"self": "val"}
        ps.update(params)
        S.contract(B + meth, params=ps, behaviours={
                       "remote_name": dict(modifies=[], requires=["is_netref(self)", "name not in LOCAL_ATTRS"],
                                           ensures={"forwards_exactly_this_operation": (GET % (handler, extra), P2)},
                                           raises={"BaseException": {"props": P2, "state": [GET % (handler, extra)]}}),
                       "local_slot": dict(modifies=[], requires=["is_netref(self)", "name in LOCAL_ATTRS"],
                                          ensures={"no_request_for_a_local_name": (NOREQ + " and n_local() == 1", P2)},
                                          raises={"AttributeError": {"props": P2, "state": [NOREQ]}}),
                   })
    RED = GET % ("HANDLE_PICKLE", "cons(proto, nil())")
    S.contract(B + "__reduce_ex__", params={"self": "val", "proto": "val"}, result="val", requires=["is_netref(self)"],
               ensures={"forwards_exactly_this_operation": (RED, P2),
                        "returns_loads_of_its_result": (
                            "result == mktuple(cons(val(pickle.loads), cons(mktuple(cons(callee_result('syncreq', 0), nil())), nil())))", P2)},
               raises={"BaseException": {"props": P2, "state": [RED]}}, modifies=[])

    # ---- the generated methods (_make_method closures): C01 call forwarding, C02 table --------------------------------
    MM = F + "_make_method.<locals>."

    def req(selfname, handler, extra):
        return ("n_callees('syncreq') == 1 and n_events() == 1 and same(callee_arg('syncreq', 0, 'proxy'), %s) and "
                "same(callee_arg('syncreq', 0, 'handler'), val(%s)) and callee_arg('syncreq', 0, 'args') == %s" % (selfname, handler, extra))
    KW = "tuple_of(dict_items(kwargs))"
    CALL = req("_self", "HANDLE_CALL", "cons(mktuple(args), cons(%s, nil()))" % KW)
    S.contract(MM + "__call__", params={"_self": "val", "args": "vl", "kwargs": "dict"}, self_name="_self", result="val",
               free={"doc": "val"}, requires=["is_netref(_self)"],
               ensures={"forwards_exactly_this_call": (CALL, ["C01", "C02"]),
                        "returns_its_result": ("same(result, callee_result('syncreq', 0))", ["C01", "C02"])},
               raises={"BaseException": {"props": ["C01", "C02"], "state": [CALL]}}, modifies=[])
    CALLATTR = req("_self", "HANDLE_CALLATTR", "cons(val(name), cons(mktuple(args), cons(%s, nil())))" % KW)
    S.contract(MM + "method#1", params={"_self": "val", "args": "vl", "kwargs": "dict"}, self_name="_self", result="val",
               free={"name": "str", "doc": "val"}, requires=["is_netref(_self)"],
               ensures={"forwards_exactly_this_call": (CALLATTR, ["C01", "C02"]),
                        "returns_its_result": ("same(result, callee_result('syncreq', 0))", ["C01", "C02"])},
               raises={"BaseException": {"props": ["C01", "C02"], "state": [CALLATTR]}}, modifies=[])
    OLD = req("self", "HANDLE_OLDSLICING",
              "cons(val(slicer_target(name)), cons(val(name), cons(start, cons(ite(stop == val(maxint), val(None), stop), "
              "cons(mktuple(args), nil())))))")
    S.contract(MM + "method#0", params={"self": "val", "start": "val", "stop": "val", "args": "vl"}, result="val",
               free={"name": "str", "slicers": "enclosing_literal", "doc": "val"},
               requires=["is_netref(self)", "name == '__getslice__' or name == '__delslice__' or name == '__setslice__'",
                         "is_int(stop) or stop is None"],
               ensures={"forwards_exactly_this_operation": (OLD, ["C02"]),
                        "returns_its_result": ("same(result, callee_result('syncreq', 0))", ["C02"])},
               raises={"BaseException": {"props": ["C02"], "state": [OLD]}}, modifies=[])
    ARR = ("n_callees('syncreq') == 1 and n_events() == 2 and same(callee_arg('syncreq', 0, 'proxy'), self) and "
           "same(callee_arg('syncreq', 0, 'handler'), val(HANDLE_PICKLE)) and callee_arg('syncreq', 0, 'args') == cons(val(-1), nil()) and "
           "n_ops() == 1 and op_name(0) == 'pickle.loads' and same(op_target(0), callee_result('syncreq', 0)) and same(result, op_result(0))")
    S.contract(MM + "__array__", params={"self": "val"}, result="val", free={"doc": "val"}, requires=["is_netref(self)"],
               ensures={"forwards_exactly_this_operation": (ARR + "", ["C02"])},
               raises={"BaseException": {"props": ["C02"], "state": ["n_callees('syncreq') == 1 and same(callee_arg('syncreq', 0, 'handler'), val(HANDLE_PICKLE))"]}},
               modifies=[])

    # ---- isinstance(x, proxy_class) for a proxy x: decided locally when both come from the same remote class, one request otherwise
    IC = req("self", "HANDLE_INSTANCECHECK", "cons(netref_idpack(other), nil())")
    IDP = ["is_netref(self)", "is_netref(other)", "is_id_pack(netref_idpack(self))", "is_id_pack(netref_idpack(other))"]
    S.contract(B + "__instancecheck__", params={"self": "val", "other": "val"}, result="val", solver_pruning=True,
               behaviours={
                   "instance_proxy": dict(modifies=[], requires=IDP + ["idpack_iid(netref_idpack(self)) != 0"], noreturn=True,
                                          raises={"TypeError": {"props": ["C02"], "state": ["n_events() == 0"]}}),
                   "same_remote_class": dict(modifies=[], requires=IDP + ["idpack_iid(netref_idpack(self)) == 0",
                                                                          "idpack_cid(netref_idpack(self)) == idpack_cid(netref_idpack(other))"],
                                             ensures={"decided_locally": ("n_events() == 0 and result == (idpack_iid(netref_idpack(other)) != 0)", ["C02"])}),
                   "other_remote_class": dict(modifies=[], requires=IDP + ["idpack_iid(netref_idpack(self)) == 0",
                                                                           "idpack_cid(netref_idpack(self)) != idpack_cid(netref_idpack(other))"],
                                              ensures={"forwards_exactly_this_operation": (IC, ["C02"]),
                                                       "returns_its_result": ("same(result, callee_result('syncreq', 0))", ["C02"])},
                                              raises={"BaseException": {"props": ["C02"], "state": [IC]}}),
               }, note="other = a non-proxy object goes through NetrefClass / type(self).__dict__ (class_factory): not under contract")
