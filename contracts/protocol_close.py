"""Contracts for connection teardown (C11): close, _cleanup, _handle_close, serve, serve_all, poll_all,
__del__, __exit__, closed; Channel.close / closed / poll.
Ghost: a disconnect-hook event ("Hook", "disconnect") appended by the abstracted call
self._local_root.on_disconnect(self)."""
F = "rpyc/core/protocol.py::Connection."
C = "rpyc/core/channel.py::Channel."
SOCK = "self._channel.stream.sock"
P11 = ["C11", "C17", "C16"]
TABLES_EMPTY = ("dict_empty(self._request_callbacks) and dict_empty(self._local_objects._dict) and "
                "dict_empty(self._proxy_cache._dict) and dict_empty(self._netref_classes_cache)")
CLEAN = "self._closed and " + SOCK + " is ClosedFile and " + TABLES_EMPTY + " and isnone(self._local_root)"
TEARDOWN_MODS = ["self._closed", "self._channel.stream.sock", "self._request_callbacks", "self._local_objects._dict",
                 "self._proxy_cache._dict", "self._netref_classes_cache", "self._last_traceback", "self._remote_root",
                 "self._local_root", "self._HANDLERS"]


def register(S):
    S.declare_fields("Connection", _proxy_cache="obj:WeakValueDict", _netref_classes_cache="dict", _remote_root="val",
                     _local_root="val", _HANDLERS="val", _recvlock="obj:Lock", _recv_event="obj:Condition")
    S.declare_fields("WeakValueDict", _dict="dict")
    S.contract("rpyc/lib/colls.py::WeakValueDict.clear", params={"self": "obj:WeakValueDict"},
               ensures={"emptied": ("dict_empty(self._dict)", P11)}, raises={}, modifies=["self._dict"])
    # ---- channel -----------------------------------------------------------------------------------------------
    S.contract(C + "close", params={"self": "obj:Channel"},
               dispatch=[("self.stream.sock is ClosedFile", "closed"), (None, "default")],
               behaviours={"closed": dict(init={"self.stream.sock": "ClosedFile"},
                                          ensures={"stays_closed": ("self.stream.sock is ClosedFile", P11)},
                                          raises={}, modifies=[])},
               ensures={"stream_closed": ("self.stream.sock is ClosedFile", P11)}, raises={},
               sets={"self.stream.sock": "ClosedFile"},
               modifies=["self.stream.sock", "self.stream.sock.shut_attempted", "self.stream.sock.closed"],
               note="closing an open or an already closed stream; the socket's own ghost flags are SocketStream.close's business")
    S.contract(C + "closed", params={"self": "obj:Channel"}, inline=True, note="property: self.stream.closed")
    S.external("hook_disconnect", params={"conn": "obj:Connection", "arg": "any"}, result="none",
               note="the service's on_disconnect hook: one ghost event; assumed to return normally (A-HOOKS)",
               outcomes=[{"label": "ok", "events": [("Hook", "'disconnect'")]}])
    # ---- _cleanup / close --------------------------------------------------------------------------------------
    HOOKED = {"internal_hook_exactly_once": ("n_ev('Hook') == 1", P11),
              "clean": (CLEAN, P11)}
    S.contract(F + "_cleanup", params={"self": "obj:Connection", "_anyway": "bool"},
               abstract_calls={"self._local_root.on_disconnect": "hook_disconnect"},
               dispatch=[("_anyway", "forced"), (None, "lazy")],
               behaviours={
                   # the way close() and the peer's close request use it: always cleans up, runs the hook once
                   "forced": dict(params={"_anyway": "const:TRUE"}, requires=["not isnone(self._local_root)"],
                                  ensures=HOOKED, raises={}, sets={"self._channel.stream.sock": "ClosedFile"},
                                  modifies=TEARDOWN_MODS + [SOCK + ".shut_attempted", SOCK + ".closed"]),
                   "lazy": dict(params={"_anyway": "const:FALSE"}, requires=["self._closed or not isnone(self._local_root)"],
                                ensures={"internal_skipped_if_closed": (
                                    "n_ev('Hook') == (0 if old(self._closed) else 1)", P11),
                                    "clean_unless_skipped": ("implies(not old(self._closed), " + CLEAN + ")", P11),
                                    "still_closed": ("self._closed", P11)},
                                raises={}, modifies=TEARDOWN_MODS + [SOCK + ".shut_attempted", SOCK + ".closed"]),
               })
    IO = ["self._send_queue", "self._sendlock.held", SOCK, SOCK + ".outbuf", SOCK + ".inbuf", SOCK + ".shut_attempted",
          SOCK + ".closed", SOCK + ".failed", "self._seqcounter.nxt", "self._local_objects._dict",
          "self._request_callbacks", "self._closed", "self._last_traceback"]
    ALLMODS = sorted(set(IO + TEARDOWN_MODS))
    QUIET = {"self._sendlock.held": "False", "self._send_queue.items": "nil()"}
    CFG = ["haskey(self._config, 'close_catchall')", "haskey(self._config, 'logger')",
           # scope: no before_closed hook configured (it fetches the remote root, i.e. serves traffic re-entrantly)
           "not haskey(self._config, 'before_closed') or not truthy(self._config['before_closed'])"]
    S.contract(F + "root", params={"self": "obj:Connection"}, result="val", trusted=True,
               note="ASSUMED (interface): fetches the remote root by a synchronous request (serves traffic meanwhile)",
               ensures={}, raises={"BaseException": {"props": ["C11"], "modifies": ALLMODS}}, modifies=ALLMODS)
    S.contract(F + "close", params={"self": "obj:Connection"},
               abstract_calls={"self._local_root.on_disconnect": "hook_disconnect"},
               dispatch=[("self._closed", "again"), (SOCK + " is ClosedFile", "first_dead"), (None, "first")],
               behaviours={
                   "again": dict(requires=["self._closed"],
                                 ensures={"closing_again_is_a_noop": ("n_events() == 0 and self._closed", P11)},
                                 raises={}, modifies=[]),
                   # the transport is already dead (end-of-stream or an I/O failure met while serving)
                   "first_dead": dict(init=dict(QUIET, **{"self._channel.stream.sock": "ClosedFile"}),
                                      requires=CFG + ["not self._closed", "not isnone(self._local_root)"],
                                      ensures={"closed_and_clean": (CLEAN, P11),
                                               "disconnect_hook_exactly_once": (
                                                   "n_callees('_cleanup') == 1 and callee_arg('_cleanup', 0, '_anyway') == True", P11)},
                                      raises={"BaseException": {"props": P11, "modifies": ALLMODS,
                                                                "state": [CLEAN, "n_callees('_cleanup') == 1"]}},
                                      modifies=ALLMODS),
                   "first": dict(init=QUIET,
                                 requires=CFG + ["not self._closed", "not isnone(self._local_root)", "not %s.failed" % SOCK],
                                 ensures={"closed_and_clean": (CLEAN, P11),
                                          "disconnect_hook_exactly_once": (
                                              "n_callees('_cleanup') == 1 and callee_arg('_cleanup', 0, '_anyway') == True", P11)},
                                 raises={"BaseException": {
                                     "props": P11, "modifies": ALLMODS, "sets": {"self._channel.stream.sock": "ClosedFile"},
                                     # whatever escapes (close_catchall off, or a BaseException), the side is clean
                                     "state": [CLEAN, "n_callees('_cleanup') == 1"]}},
                                 sets={"self._channel.stream.sock": "ClosedFile"}, modifies=ALLMODS),
               })
    S.contract(F + "closed", params={"self": "obj:Connection"}, inline=True, note="property: self._closed")
    S.contract(F + "_handle_close", params={"self": "obj:Connection"},
               requires=["not isnone(self._local_root)"],
               ensures={"cleans_up_unless_already_closed": (
                   "n_callees('_cleanup') == 1 and n_events() == 1", P11)},
               raises={}, modifies=TEARDOWN_MODS + [SOCK + ".shut_attempted", SOCK + ".closed"])
    S.contract(F + "__exit__", params={"self": "obj:Connection", "t": "any", "v": "any", "tb": "any"},
               requires=CFG + ["implies(not self._closed, not isnone(self._local_root) and %s is not ClosedFile and "
                               "not %s.failed)" % (SOCK, SOCK)], init=QUIET,
               ensures={"closes": ("n_callees('close') == 1 and n_events() == 1 and self._closed", P11)},
               raises={"BaseException": {"props": P11, "modifies": ALLMODS, "state": ["n_callees('close') == 1", "self._closed"],
                                         "variants": [{"label": "was closed", "sets": {}},
                                                      {"label": "closed now", "sets": {"self._channel.stream.sock": "ClosedFile"}}]}},
               modifies=ALLMODS)
    S.contract(F + "__del__", params={"self": "obj:Connection"},
               requires=CFG + ["implies(not self._closed, not isnone(self._local_root) and %s is not ClosedFile and "
                               "not %s.failed)" % (SOCK, SOCK)], init=QUIET,
               ensures={"closes": ("n_callees('close') == 1 and n_events() == 1", P11)},
               raises={"BaseException": {"props": P11, "modifies": ALLMODS, "state": ["n_callees('close') == 1"]}},
               modifies=ALLMODS)
