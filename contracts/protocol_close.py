"""Contracts for connection teardown (C11): close, _cleanup, _handle_close, serve, serve_all, poll_all,
__del__, __exit__, closed; Channel.close / closed / poll.
Ghost: a disconnect-hook event ("Hook", "disconnect") appended by the abstracted call
self._local_root.on_disconnect(self)."""
F = "rpyc/core/protocol.py::Connection."
C = "rpyc/core/channel.py::Channel."
SOCK = "self._channel.stream.sock"
P11 = ["C11", "C17", "C16"]
TABLES_EMPTY = ("dict_empty(self._request_callbacks) and dict_empty(self._local_objects._dict) and "
                "dict_empty(self._proxy_cache._dict) and dict_empty(self._netref_classes_cache)")
CLEAN = "self._closed and " + SOCK + " is ClosedFile and " + TABLES_EMPTY + " and isnone(self._local_root)"
TEARDOWN_MODS = ["self._closed", "self._channel.stream.sock", "self._request_callbacks", "self._local_objects._dict",
                 "self._proxy_cache._dict", "self._netref_classes_cache", "self._last_traceback", "self._remote_root",
                 "self._local_root", "self._HANDLERS"]


from contracts.protocol_core import EXC_CONFIG, OPEN, TABLE_OK


def register(S):
    S.declare_fields("Connection", _proxy_cache="obj:WeakValueDict", _netref_classes_cache="dict", _remote_root="val",
                     _local_root="val", _HANDLERS="val", _recvlock="obj:Lock", _recv_event="obj:Condition")
    S.declare_fields("WeakValueDict", _dict="dict")
    S.contract("rpyc/lib/colls.py::WeakValueDict.clear", params={"self": "obj:WeakValueDict"},
               ensures={"emptied": ("dict_empty(self._dict)", P11)}, raises={}, modifies=["self._dict"])
    # ---- channel -----------------------------------------------------------------------------------------------
    S.contract(C + "close", params={"self": "obj:Channel"},
               dispatch=[("self.stream.sock is ClosedFile", "closed"), (None, "default")],
               behaviours={"closed": dict(init={"self.stream.sock": "ClosedFile"},
                                          ensures={"stays_closed": ("self.stream.sock is ClosedFile", P11)},
                                          raises={}, modifies=[])},
               ensures={"stream_closed": ("self.stream.sock is ClosedFile", P11)}, raises={},
               sets={"self.stream.sock": "ClosedFile"},
               modifies=["self.stream.sock", "self.stream.sock.shut_attempted", "self.stream.sock.closed"],
               note="closing an open or an already closed stream; the socket's own ghost flags are SocketStream.close's business")
    S.contract(C + "closed", params={"self": "obj:Channel"}, inline=True, note="property: self.stream.closed")
    S.external("hook_disconnect", params={"conn": "obj:Connection", "arg": "any"}, result="none",
               note="the service's on_disconnect hook: one ghost event; assumed to return normally (A-HOOKS)",
               outcomes=[{"label": "ok", "events": [("Hook", "'disconnect'")]}])
    # ---- _cleanup / close --------------------------------------------------------------------------------------
    HOOKED = {"internal_hook_exactly_once": ("n_ev('Hook') == 1", P11),
              "clean": (CLEAN, P11 + ["C10"])}
    S.contract(F + "_cleanup", params={"self": "obj:Connection", "_anyway": "bool"},
               abstract_calls={"self._local_root.on_disconnect": "hook_disconnect"},
               dispatch=[("_anyway", "forced"), (None, "lazy")],
               behaviours={
                   # the way close() and the peer's close request use it: always cleans up, runs the hook once
                   "forced": dict(params={"_anyway": "const:TRUE"}, requires=["not isnone(self._local_root)"],
                                  ensures=HOOKED, raises={}, sets={"self._channel.stream.sock": "ClosedFile"},
                                  modifies=TEARDOWN_MODS + [SOCK + ".shut_attempted", SOCK + ".closed"]),
                   "lazy": dict(params={"_anyway": "const:FALSE"}, requires=["self._closed or not isnone(self._local_root)"],
                                ensures={"internal_skipped_if_closed": (
                                    "n_ev('Hook') == (0 if old(self._closed) else 1)", P11),
                                    "clean_unless_skipped": ("implies(not old(self._closed), " + CLEAN + ")", P11),
                                    "still_closed": ("self._closed", P11)},
                                raises={}, modifies=TEARDOWN_MODS + [SOCK + ".shut_attempted", SOCK + ".closed"]),
               })
    IO = ["self._send_queue", "self._sendlock.held", SOCK, SOCK + ".outbuf", SOCK + ".inbuf", SOCK + ".shut_attempted",
          SOCK + ".closed", SOCK + ".failed", "self._seqcounter.nxt", "self._local_objects._dict",
          "self._request_callbacks", "self._closed", "self._last_traceback", "$refcounts", "$sysmodules",
          "global:rpyc.core.vinegar:_generic_exceptions_cache"]
    ALLMODS = sorted(set(IO + TEARDOWN_MODS))
    # closing never dispatches an incoming message: it cannot touch vinegar's cache or import anything
    CLOSEMODS = [m for m in ALLMODS if m not in ("$sysmodules", "global:rpyc.core.vinegar:_generic_exceptions_cache")]
    NOSOCK = [m for m in CLOSEMODS if not m.startswith(SOCK)]
    QUIET = {"self._sendlock.held": "False", "self._send_queue.items": "nil()"}
    CFG = ["all_slots_ok(self._local_objects._dict) and cache_ok(self._proxy_cache._dict, self) and generic_cache_ok(module_global('rpyc.core.vinegar', '_generic_exceptions_cache'))", "haskey(self._config, 'close_catchall')", "haskey(self._config, 'logger')",
           # scope of the plain behaviours: no before_closed hook configured (behaviour `with_hook` covers a configured hook)
           "not haskey(self._config, 'before_closed') or not truthy(self._config['before_closed'])"]
    CFG_ANY_HOOK = CFG[:-1]
    HOOK_SET = "haskey(self._config, 'before_closed') and truthy(self._config['before_closed'])"
    CS = "conn._channel.stream.sock"
    HK_MOD = ["conn._last_traceback", "conn._local_objects._dict", "conn._proxy_cache._dict", "$refcounts", "$sysmodules",
              "global:rpyc.core.vinegar:_generic_exceptions_cache", "conn._seqcounter.nxt", "conn._request_callbacks",
              CS + ".outbuf", CS + ".inbuf", "conn._remote_root"]
    HK_INV = ["implies(old(all_slots_ok(conn._local_objects._dict)), all_slots_ok(conn._local_objects._dict))",
              "implies(old(cache_ok(conn._proxy_cache._dict, conn)), cache_ok(conn._proxy_cache._dict, conn))",
              "conn._seqcounter.nxt >= old(conn._seqcounter.nxt)",
              "implies(old(generic_cache_ok(module_global('rpyc.core.vinegar', '_generic_exceptions_cache'))), "
              "generic_cache_ok(module_global('rpyc.core.vinegar', '_generic_exceptions_cache')))"]
    HK_DOWN = HK_MOD + [CS, CS + ".shut_attempted", CS + ".closed", CS + ".failed"]
    # the user's before_closed hook, called with the remote root while the connection is already marked closed: it typically
    # talks to the peer, i.e. serves whatever arrives meanwhile (any handler may run - but a nested close finds the connection
    # marked closed and does nothing); it returns or raises anything, and the transport may be gone afterwards
    S.external("before_closed_hook", params={"conn": "obj:Connection", "root": "val"}, result="val",
               note="the configured before_closed hook: a ghost event; may touch what an exchange on the connection touches, keeps "
                    "the table invariants, returns or raises anything, may leave the transport dead",
               outcomes=[{"label": "returns", "events": [("Hook", "'before_closed'")], "modifies": HK_MOD, "assume": HK_INV},
                         {"label": "raises", "raise": "*", "events": [("Hook", "'before_closed'")], "modifies": HK_MOD, "assume": HK_INV},
                         {"label": "returns, transport died", "events": [("Hook", "'before_closed'")], "modifies": HK_DOWN, "assume": HK_INV,
                          "sets": {"conn._channel.stream.sock": "ClosedFile"}},
                         {"label": "raises, transport died", "raise": "*", "events": [("Hook", "'before_closed'")], "modifies": HK_DOWN,
                          "assume": HK_INV, "sets": {"conn._channel.stream.sock": "ClosedFile"}}])
    S.external("root_for_hook", params={"conn": "obj:Connection"}, result="val",
               note="ASSUMED: `self.root` read while closing (the connection is already marked closed): the cached root, or a synchronous "
                    "request for it - returns or raises anything, touches what an exchange touches, may leave the transport dead",
               outcomes=[{"label": "returns", "modifies": HK_MOD, "assume": HK_INV},
                         {"label": "raises", "raise": "*", "modifies": HK_MOD, "assume": HK_INV},
                         {"label": "raises, transport died", "raise": "*", "modifies": HK_DOWN, "assume": HK_INV,
                          "sets": {"conn._channel.stream.sock": "ClosedFile"}}])
    S.contract(F + "root", params={"self": "obj:Connection"}, result="val",
               note="fetches the remote root by a synchronous request the first time (serves traffic meanwhile) and remembers it",
               init={"self._sendlock.held": "False", "self._send_queue.items": "nil()"}, clock=True,
               requires=OPEN + [TABLE_OK, "haskey(self._config, 'sync_request_timeout')",
                                "isnone(self._config['sync_request_timeout']) or (isnum(self._config['sync_request_timeout']) "
                                "and num_of(self._config['sync_request_timeout']) >= 0)"],
               ensures={"asks_at_most_once": ("n_callees('sync_request') == (1 if isnone(old(self._remote_root)) else 0) and "
                                              "same(result, self._remote_root)", ["C11"])}, raises={"BaseException": {"props": ["C11"], "modifies": ALLMODS + ["self._remote_root"]}},
               modifies=ALLMODS + ["self._remote_root"])
    S.contract(F + "close", params={"self": "obj:Connection"},
               abstract_calls={"self._local_root.on_disconnect": "hook_disconnect", "self._config['before_closed']": "before_closed_hook"},
               getattr_models={"self.root": "root_for_hook"},
               dispatch=[("self._closed", "again"), (HOOK_SET, "with_hook"), (SOCK + " is ClosedFile", "first_dead"), (None, "first")],
               behaviours={
                   # a before_closed hook is configured (transport open at entry): whatever the hook or the fetch of the root does -
                   # returns, raises, kills the transport - the side ends closed and clean, the disconnect hook ran exactly once
                   "with_hook": dict(init=QUIET,
                                     # (the hook call written through a local - `hook = config.get(...); hook(root)` - is one call of
                                     # an unknown callable instead of the abstracted call: allowed, once)
                                     effects={"normal": (0, 1), "raise": (0, 1)},
                                     requires=CFG_ANY_HOOK + [HOOK_SET, "not self._closed", "not isnone(self._local_root)",
                                                              SOCK + " is not ClosedFile", "not %s.failed" % SOCK],
                                     ensures={"send_lock_free": ("not self._sendlock.held", P11), "closed_and_clean": (CLEAN, P11),
                                              "disconnect_hook_exactly_once": (
                                                  "n_callees('_cleanup') == 1 and callee_arg('_cleanup', 0, '_anyway') == True", P11)},
                                     raises={"BaseException": {"props": P11, "modifies": ALLMODS + ["self._remote_root"],
                                                               "sets": {"self._channel.stream.sock": "ClosedFile"},
                                                               "state": [CLEAN, "n_callees('_cleanup') == 1", "not self._sendlock.held"]}},
                                     sets={"self._channel.stream.sock": "ClosedFile"}, modifies=ALLMODS + ["self._remote_root"]),
                   "again": dict(requires=["self._closed"],
                                 ensures={"closing_again_is_a_noop": ("n_events() == 0 and self._closed", P11)},
                                 raises={}, modifies=[]),
                   # the transport is already dead (end-of-stream or an I/O failure met while serving)
                   "first_dead": dict(init=dict(QUIET, **{"self._channel.stream.sock": "ClosedFile"}),
                                      requires=CFG + ["not self._closed", "not isnone(self._local_root)"],
                                      ensures={"send_lock_free": ("not self._sendlock.held", P11), "closed_and_clean": (CLEAN, P11),
                                               "disconnect_hook_exactly_once": (
                                                   "n_callees('_cleanup') == 1 and callee_arg('_cleanup', 0, '_anyway') == True", P11)},
                                      raises={"BaseException": {"props": P11, "modifies": NOSOCK,
                                                                "state": [CLEAN, "n_callees('_cleanup') == 1", "not self._sendlock.held"]}},
                                      modifies=NOSOCK),
                   "first": dict(init=QUIET,
                                 requires=CFG + ["not self._closed", "not isnone(self._local_root)", "not %s.failed" % SOCK],
                                 ensures={"send_lock_free": ("not self._sendlock.held", P11), "closed_and_clean": (CLEAN, P11),
                                          "disconnect_hook_exactly_once": (
                                              "n_callees('_cleanup') == 1 and callee_arg('_cleanup', 0, '_anyway') == True", P11)},
                                 raises={"BaseException": {
                                     "props": P11, "modifies": CLOSEMODS, "sets": {"self._channel.stream.sock": "ClosedFile"},
                                     # whatever escapes (close_catchall off, or a BaseException), the side is clean
                                     "state": [CLEAN, "n_callees('_cleanup') == 1", "not self._sendlock.held"]}},
                                 sets={"self._channel.stream.sock": "ClosedFile"}, modifies=CLOSEMODS),
               })
    S.contract(F + "closed", params={"self": "obj:Connection"}, inline=True, note="property: self._closed")
    S.contract(F + "_handle_close", params={"self": "obj:Connection"},
               requires=["not isnone(self._local_root)"],
               ensures={"cleans_up_unless_already_closed": (
                   "n_callees('_cleanup') == 1 and n_events() == 1", P11)},
               raises={}, modifies=TEARDOWN_MODS + [SOCK + ".shut_attempted", SOCK + ".closed"])
    S.contract(F + "__exit__", params={"self": "obj:Connection", "t": "any", "v": "any", "tb": "any"},
               requires=CFG + ["implies(not self._closed, not isnone(self._local_root) and %s is not ClosedFile and "
                               "not %s.failed)" % (SOCK, SOCK)], init=QUIET,
               ensures={"closes": ("n_callees('close') == 1 and n_events() == 1 and self._closed", P11)},
               raises={"BaseException": {"props": P11, "modifies": CLOSEMODS, "state": ["n_callees('close') == 1", "self._closed"],
                                         "variants": [{"label": "was closed", "sets": {}},
                                                      {"label": "closed now", "sets": {"self._channel.stream.sock": "ClosedFile"}}]}},
               modifies=CLOSEMODS)
    S.contract(F + "__del__", params={"self": "obj:Connection"},
               requires=CFG + ["implies(not self._closed, not isnone(self._local_root) and %s is not ClosedFile and "
                               "not %s.failed)" % (SOCK, SOCK)], init=QUIET,
               ensures={"closes": ("n_callees('close') == 1 and n_events() == 1", P11)},
               raises={"BaseException": {"props": P11, "modifies": CLOSEMODS, "state": ["n_callees('close') == 1"]}},
               modifies=CLOSEMODS)

    # ---- serving -----------------------------------------------------------------------------------------------
    S.declare_fields("Condition", waiters="int")
    S.external("Condition.wait", params={"self": "obj:Condition", "timeout": "any"}, result="bool", defaults={"timeout": None},
               note="Condition.wait(t): returns True (notified) or False (timed out); sequential model: no other effect")
    S.externals["Condition.wait"].outcomes = [{"label": "returns"}]
    S.external("Condition.notify_all", params={"self": "obj:Condition"}, result="none",
               outcomes=[{"label": "ok", "events": [("Notify", "self")]}],
               note="Condition.notify_all(): a ghost event (threads parked in wait() are woken); no other effect in the sequential model")
    S.contract(C + "poll", params={"self": "obj:Channel", "timeout": "any"}, result="bool", trusted=True,
               dispatch=[("self.stream.sock is ClosedFile", "closed"), (None, "default")],
               note="ASSUMED (Stream.poll uses select/poll objects): whether input is pending within the timeout; on a "
                    "closed stream fileno() raises EOFError; select errors may escape; no bytes are consumed",
               behaviours={"closed": dict(init={"self.stream.sock": "ClosedFile"}, noreturn=True,
                                          raises={"EOFError": {"props": P11, "modifies": []}}, modifies=[])},
               ensures={}, raises={"OSError": {"props": P11, "modifies": []},
                                   "EOFError": {"props": P11, "sets": {"self.stream.sock": "ClosedFile"},
                                                "modifies": ["self.stream.sock", "self.stream.sock.shut_attempted",
                                                             "self.stream.sock.closed", "self.stream.sock.failed"]}},
               modifies=[], clock=True)
    SERVE_REQ = CFG + ["not self._closed", "not isnone(self._local_root)", "not %s.failed" % SOCK, "not self._recvlock.held",
                       "haskey(self._config, 'propagate_SystemExit_locally')",
                       "haskey(self._config, 'propagate_KeyboardInterrupt_locally')"] + EXC_CONFIG
    MAYBE_DEAD = [{"label": "transport open", "sets": {"self._channel.stream.sock": "old(self._channel.stream.sock)"},
                   "modifies": [m for m in ALLMODS if m not in (SOCK, SOCK + ".shut_attempted", SOCK + ".closed", SOCK + ".failed")]
                   + ["self._recvlock.held"]},
                  {"label": "transport died", "sets": {"self._channel.stream.sock": "ClosedFile"},
                   "modifies": ALLMODS + ["self._recvlock.held"]}]
    S.contract(F + "serve", params={"self": "obj:Connection", "timeout": "val", "wait_for_lock": "any"}, result="any",
               behaviours={
                   # what a waiter (AsyncResult.wait) may rely on without knowing the connection's state: ASSUMED view
                   "as_seen_by_a_waiter": dict(trusted=True, params={"timeout": "any"}, clock=True, ensures={},
                                               # (the transport's own timeouts are retried inside the streams and never
                                               # escape as TimeoutError)
                                               raises={"BaseException": {"state": ["not exc_is(exc, 'TimeoutError')"],
                                                                         "props": ["C15"], "modifies": []}},
                                               modifies=[])},
               init=QUIET, clock=True,
               requires=SERVE_REQ + ["isnone(timeout) or (isnum(timeout) and num_of(timeout) >= 0)"],
               calls={"recv": {"behaviour": "safety"}},
               ensures={"receive_lock_released": ("not self._recvlock.held", P11 + ["C13"]),
                        # whoever took the receive lock wakes the threads parked on the condition before leaving, on
                        # every exit - otherwise a request blocked waiting for the lock never learns that the
                        # connection ended (necessary for `none hangs`; the interleavings themselves are out of reach)
                        "internal_waiters_woken": ("implies(n_ev('LockTaken') >= 1, n_ev('Notify') >= 1)", ["C11"]),
                        "quiescent_after": ("isnil(self._send_queue.items) and not self._sendlock.held and "
                                            "implies(not self._closed, not isnone(self._local_root)) and "
                                            "all_slots_ok(self._local_objects._dict) and cache_ok(self._proxy_cache._dict, self) and generic_cache_ok(module_global('rpyc.core.vinegar', '_generic_exceptions_cache'))", P11)},
               raises={
                   # end-of-stream or an I/O failure met while receiving: this side becomes closed (hook run, tables
                   # released) BEFORE the error is re-raised
                   "EOFError": {"props": P11, "modifies": ALLMODS + ["self._recvlock.held"],
                                "variants": [
                                    {"label": "while receiving", "if_trace": "n_callees('close') == 1",
                                     "sets": {"self._channel.stream.sock": "ClosedFile"},
                                     "state": ["not self._recvlock.held", "not self._sendlock.held", CLEAN,
                                               "implies(n_ev('LockTaken') >= 1, n_ev('Notify') >= 1)"]},
                                    {"label": "from the dispatched message, connection down",
                                     "sets": {"self._channel.stream.sock": "ClosedFile"},
                                     "state": ["not self._recvlock.held", "n_callees('_dispatch') == 1", "not self._sendlock.held",
                                               "implies(not self._closed, not isnone(self._local_root))", "all_slots_ok(self._local_objects._dict) and cache_ok(self._proxy_cache._dict, self) and generic_cache_ok(module_global('rpyc.core.vinegar', '_generic_exceptions_cache'))"]},
                                    {"label": "from the dispatched message", "sets": {"self._channel.stream.sock": "old(self._channel.stream.sock)"},
                                     "modifies": [m for m in ALLMODS if not m.startswith(SOCK)] + [SOCK + ".outbuf", SOCK + ".inbuf", "self._recvlock.held"],
                                     "state": ["not self._recvlock.held", "n_callees('_dispatch') == 1", "not self._sendlock.held",
                                               "implies(not self._closed, not isnone(self._local_root))",
                                               "all_slots_ok(self._local_objects._dict) and cache_ok(self._proxy_cache._dict, self) and generic_cache_ok(module_global('rpyc.core.vinegar', '_generic_exceptions_cache'))"]}]},
                   "BaseException": {"props": P11, "variants": MAYBE_DEAD, "state": [
                       "not self._recvlock.held", "not self._sendlock.held", "implies(n_ev('LockTaken') >= 1, n_ev('Notify') >= 1)",
                       "implies(not self._closed, not isnone(self._local_root))", "all_slots_ok(self._local_objects._dict)", "cache_ok(self._proxy_cache._dict, self)", "generic_cache_ok(module_global('rpyc.core.vinegar', '_generic_exceptions_cache'))"]}},
               modifies=[m for m in ALLMODS if m not in (SOCK, SOCK + ".shut_attempted", SOCK + ".closed", SOCK + ".failed")] + ["self._recvlock.held"])

    # serve_all: closed on EVERY exit path
    S.contract(F + "serve_all", params={"self": "obj:Connection"}, init=QUIET, clock=True,
               requires=CFG + ["implies(not self._closed, not isnone(self._local_root))", "not %s.failed" % SOCK,
                               "not self._recvlock.held", "haskey(self._config, 'propagate_SystemExit_locally')",
                               "haskey(self._config, 'propagate_KeyboardInterrupt_locally')"] + EXC_CONFIG,
               calls={"serve": {"ghost": {}}},
               ensures={"always_closes": ("self._closed and n_callees('close') == 1", P11 + ["C16"])},
               raises={"BaseException": {"props": P11 + ["C16"], "state": ["self._closed", "n_callees('close') == 1"],
                                         "variants": MAYBE_DEAD}},
               modifies=ALLMODS + ["self._recvlock.held"],
               loops={0: {"modifies": [m for m in ALLMODS if not m.startswith(SOCK)] + ["self._recvlock.held"], "clock": True,
                          "local_trace": True,
                          "invariant": ["not self._recvlock.held", "isnil(self._send_queue.items)", "not self._sendlock.held",
                                        "%s is old(%s)" % (SOCK, SOCK), "not %s.failed" % SOCK,
                                        "all_slots_ok(self._local_objects._dict) and cache_ok(self._proxy_cache._dict, self) and generic_cache_ok(module_global('rpyc.core.vinegar', '_generic_exceptions_cache'))",
                                        "implies(not self._closed, not isnone(self._local_root))"]}})
