"""Contracts for boxing / unboxing (rpyc/core/protocol.py: _box, _unbox, _box_exc, _unbox_exc).
Stage 1 (this file, for C08's dependency cone): interface contracts, marked trusted=True where the body is
not yet verified; the evidence of every property that assumes them lists them."""
F = "rpyc/core/protocol.py::Connection."
SOCK = "self._channel.stream.sock"


def register(S):
    TABLE_OK = "all_slots_ok(self._local_objects._dict)"
    S.contract(F + "_box", params={"self": "obj:Connection", "obj": "val"}, result="val",
               ghost={"k": "val"},          # an arbitrary lent id: the count clause holds for every id
               requires=[TABLE_OK],
               ensures={"travels_as_the_statement_says": ("same(result, boxed(obj, self))", ["C03", "C01", "C10"]),
                        "result_is_plain": ("plain(result)", ["C08", "C01", "C03"]),
                        "one_box_per_occurrence": (
                            "boxes(self._local_objects._dict, k) == old(boxes(self._local_objects._dict, k)) + occ(obj, self, k)",
                            ["C10", "C03"]),
                        "table_stays_well_formed": (TABLE_OK, ["C10", "C03", "C07"])},
               raises={}, modifies=["self._local_objects._dict"],
               calls={"_box": {"ghost": {"k": "k"}}},
               loops={0: {"rest": "rest", "havoc": {"acc": "vl"}, "modifies": ["self._local_objects._dict"],
                          "invariant": [
                              "app(acc, boxed_list(rest, self)) == boxed_list(items(obj), self)",
                              "plain_list(acc)",
                              "boxes(self._local_objects._dict, k) + occ_list(rest, self, k) == "
                              "old(boxes(self._local_objects._dict, k)) + occ_list(items(obj), self, k)",
                              TABLE_OK],
                          "body_events": ["n_callees('_box') == 1 and n_events() == 1"],
                          "snoc_hints": ["app_snoc(acc, x, boxed_list(rest, self))", "plain_snoc(acc, x)"],
                          "exit_hints": ["app_nil(acc)"]}})
    S.contract(F + "_box_exc", params={"self": "obj:Connection", "typ": "any", "val": "any", "tb": "any"}, result="val",
               trusted=True,
               note="ASSUMED (vinegar.dump not yet under contract): returns a plain value describing the exception",
               ensures={"result_is_plain": ("plain(result)", ["C08", "C09"])}, raises={}, modifies=[])
    S.contract(F + "_unbox", params={"self": "obj:Connection", "package": "val"}, result="val", trusted=True,
               note="ASSUMED (body not yet verified): returns some value or raises anything; while creating a proxy it may "
                    "perform a nested request on this connection, which can end with the transport closed",
               ensures={}, raises={"BaseException": {
                   "modifies": [SOCK + ".outbuf", SOCK + ".inbuf"], "props": ["C08"]}},
               modifies=[SOCK + ".outbuf", SOCK + ".inbuf"])
