"""Contracts for boxing / unboxing (rpyc/core/protocol.py: _box, _unbox, _box_exc, _unbox_exc).
Stage 1 (this file, for C08's dependency cone): interface contracts, marked trusted=True where the body is
not yet verified; the evidence of every property that assumes them lists them."""
F = "rpyc/core/protocol.py::Connection."
SOCK = "self._channel.stream.sock"


def register(S):
    S.contract(F + "_box", params={"self": "obj:Connection", "obj": "val"}, result="val", trusted=True,
               note="ASSUMED (body not yet verified): returns a plain (label, payload) pair; registers lent objects in "
                    "this connection's table only; raises nothing",
               ensures={"result_is_plain": ("plain(result)", ["C08", "C01", "C03"])},
               raises={}, modifies=["self._local_objects._dict"])
    S.contract(F + "_box_exc", params={"self": "obj:Connection", "typ": "any", "val": "any", "tb": "any"}, result="val",
               trusted=True,
               note="ASSUMED (vinegar.dump not yet under contract): returns a plain value describing the exception",
               ensures={"result_is_plain": ("plain(result)", ["C08", "C09"])}, raises={}, modifies=[])
    S.contract(F + "_unbox", params={"self": "obj:Connection", "package": "val"}, result="val", trusted=True,
               note="ASSUMED (body not yet verified): returns some value or raises anything; while creating a proxy it may "
                    "perform a nested request on this connection, which can end with the transport closed",
               ensures={}, raises={"BaseException": {
                   "modifies": ["self._local_objects._dict", SOCK + ".outbuf", SOCK + ".inbuf"], "props": ["C08"]}},
               modifies=["self._local_objects._dict", SOCK + ".outbuf", SOCK + ".inbuf"])
