"""Contracts for boxing / unboxing (rpyc/core/protocol.py: _box, _unbox, _box_exc, _unbox_exc).
Stage 1 (this file, for C08's dependency cone): interface contracts, marked trusted=True where the body is
not yet verified; the evidence of every property that assumes them lists them."""
F = "rpyc/core/protocol.py::Connection."
SOCK = "self._channel.stream.sock"


def register(S):
    TABLE_OK = "all_slots_ok(self._local_objects._dict)"
    S.contract(F + "_box", params={"self": "obj:Connection", "obj": "val"}, result="val",
               ghost={"k": "val"},          # an arbitrary lent id: the count clause holds for every id
               requires=[TABLE_OK],
               ensures={"travels_as_the_statement_says": ("same(result, boxed(obj, self))", ["C03", "C01", "C10"]),
                        "result_is_plain": ("plain(result)", ["C08", "C01", "C03"]),
                        "one_box_per_occurrence": (
                            "boxes(self._local_objects._dict, k) == old(boxes(self._local_objects._dict, k)) + occ(obj, self, k)",
                            ["C10", "C03"]),
                        # what a remote-reference label names is kept in THIS connection's table under that label's id:
                        # the object itself (or the object already lent under that id - the same one, T-ID)
                        "the_referenced_object_is_lent": (
                            "implies(not plain(obj) and not istuple(obj) and not own_proxy(obj, self), "
                            "haskey(self._local_objects._dict, id_pack(obj)) and "
                            "(same(lent(self._local_objects._dict, id_pack(obj)), obj) or "
                            "(old(haskey(self._local_objects._dict, id_pack(obj))) and "
                            "same(lent(self._local_objects._dict, id_pack(obj)), old(lent(self._local_objects._dict, id_pack(obj)))))))",
                            ["C03", "C10"]),
                        "table_stays_well_formed": (TABLE_OK, ["C10", "C03", "C07"])},
               raises={}, modifies=["self._local_objects._dict"],
               calls={"_box": {"ghost": {"k": "k"}}},
               loops={0: {"rest": "rest", "havoc": {"acc": "vl"}, "modifies": ["self._local_objects._dict"],
                          "invariant": [
                              "app(acc, boxed_list(rest, self)) == boxed_list(items(obj), self)",
                              "plain_list(acc)",
                              "boxes(self._local_objects._dict, k) + occ_list(rest, self, k) == "
                              "old(boxes(self._local_objects._dict, k)) + occ_list(items(obj), self, k)",
                              TABLE_OK],
                          "body_events": ["n_callees('_box') == 1 and n_events() == 1"],
                          "snoc_hints": ["app_snoc(acc, x, boxed_list(rest, self))", "plain_snoc(acc, x)"],
                          "exit_hints": ["app_nil(acc)"]}})
    S.declare_fields("Connection", _config="dict")
    DUMP_PRE = "implies(not isstr(typ), isstr(meta_attr(typ, '__module__')) and isstr(meta_attr(typ, '__name__')))"
    FROM_CONFIG = ("n_callees('dump') == 1 and n_events() == 1 and same(callee_arg('dump', 0, 'typ'), typ) and "
                   "same(callee_arg('dump', 0, 'val'), val) and "
                   "same(callee_arg('dump', 0, 'include_local_traceback'), self._config['include_local_traceback']) and "
                   "same(callee_arg('dump', 0, 'include_local_version'), self._config['include_local_version'])")
    S.contract(F + "_box_exc", params={"self": "obj:Connection", "typ": "val", "val": "val", "tb": "val"}, result="val",
               requires=["haskey(self._config, 'include_local_traceback')", "haskey(self._config, 'include_local_version')", DUMP_PRE],
               ensures={"result_is_plain": ("plain(result)", ["C08", "C09", "C01"]),
                        # what is disclosed follows THIS connection's configuration
                        "disclosure_follows_this_connections_configuration": (FROM_CONFIG, ["C09", "C07"]),
                        "returns_the_record": ("same(result, callee_result('dump', 0))", ["C09"])},
               raises={"BaseException": {"props": ["C09", "C08"], "state": [FROM_CONFIG]}}, modifies=[])
    VCACHE = "global:rpyc.core.vinegar:_generic_exceptions_cache"
    GCACHE_OK = "generic_cache_ok(module_global('rpyc.core.vinegar', '_generic_exceptions_cache'))"
    LOAD_FROM_CONFIG = ("n_callees('load') == 1 and n_events() == 1 and same(callee_arg('load', 0, 'val'), raw) and "
                        "callee_arg('load', 0, 'import_custom_exceptions') == truthy(self._config['import_custom_exceptions']) and "
                        "callee_arg('load', 0, 'instantiate_custom_exceptions') == truthy(self._config['instantiate_custom_exceptions'])")
    S.contract(F + "_unbox_exc", params={"self": "obj:Connection", "raw": "val"}, result="val",
               requires=["plain(raw)", GCACHE_OK] +
                        ["haskey(self._config, '%s') and isvbool(self._config['%s'])" % (k, k)
                         for k in ("import_custom_exceptions", "instantiate_custom_exceptions")] +
                        ["haskey(self._config, 'instantiate_oldstyle_exceptions')"],
               ensures={"rebuilt_under_this_connections_configuration": (LOAD_FROM_CONFIG, ["C09", "C07"]),
                        "cache_stays_well_formed": (GCACHE_OK, ["C09", "C08"]),
                        "returns_the_exception": ("same(result, callee_result('load', 0))", ["C09", "C08"])},
               raises={"BaseException": {"props": ["C09", "C08"], "state": [LOAD_FROM_CONFIG, GCACHE_OK], "modifies": ["$sysmodules", VCACHE]}},
               modifies=["$sysmodules", VCACHE])
    register_unbox(S)


def register_unbox(S):
    """_unbox and what it uses (C03, C07, C10)"""
    W = "rpyc/lib/colls.py::WeakValueDict."
    P3 = ["C03", "C07", "C10", "C01"]
    # the proxy cache, abstracting the weak references (T-WEAKREF): _dict maps an id pack to the LIVE proxy for it
    S.contract(W + "__contains__", params={"self": "obj:WeakValueDict", "key": "val"}, result="bool", trusted=True,
               effect_free=True, note="ASSUMED (weak references are not modelled): whether a live proxy is cached for the key",
               ensures={"is_membership": ("result == haskey(self._dict, key)", P3)}, raises={}, modifies=[])
    S.contract(W + "__getitem__", params={"self": "obj:WeakValueDict", "key": "val"}, result="val", trusted=True,
               effect_free=True, note="ASSUMED (T-WEAKREF): the live proxy cached for the key, KeyError if none",
               ensures={"the_cached_proxy": ("haskey(self._dict, key) and same(result, self._dict[key])", P3)},
               raises={"KeyError": {"only_when": "not haskey(self._dict, key)", "props": P3}}, modifies=[])
    S.contract(W + "__setitem__", params={"self": "obj:WeakValueDict", "key": "val", "value": "val"}, trusted=True,
               effect_free=True, note="ASSUMED (T-WEAKREF): caches the proxy for the key; other keys untouched",
               ensures={"cached": ("haskey(self._dict, key) and same(self._dict[key], value) and unchanged_except(self._dict, key)", P3)},
               raises={}, modifies=["self._dict"])
    IO = [SOCK + ".outbuf", SOCK + ".inbuf"]
    S.contract(F + "_netref_factory", params={"self": "obj:Connection", "id_pack": "val"}, result="val", trusted=True,
               note="ASSUMED (class synthesis is outside the subset; bounded stand-in under C02): a NEW proxy object for this "
                    "connection and this id pack with reference count 1; may inspect the remote class by a nested request",
               ensures={"a_new_proxy": ("is_netref(result) and same(netref_conn(result), self) and "
                                        "same(netref_idpack(result), id_pack) and refcount(result) == 1 and "
                                        "old(refcount(result)) == 0", P3)},
               raises={"BaseException": {"props": P3, "modifies": IO}}, modifies=IO + ["$refcounts"])

    UNBOX_IO = IO + ["self._proxy_cache._dict", "$refcounts"]
    INV = ["plain(package)", "all_slots_ok(self._local_objects._dict)", "cache_ok(self._proxy_cache._dict, self)"]
    CACHE = {"cache_stays_well_formed": ("cache_ok(self._proxy_cache._dict, self)", P3)}
    LV, LT, LL, LR = ["label_is(package, %s)" % l for l in ("LABEL_VALUE", "LABEL_TUPLE", "LABEL_LOCAL_REF", "LABEL_REMOTE_REF")]
    LOOP = {0: {"rest": "rest", "havoc": {"acc": "vl"}, "modifies": UNBOX_IO,
                "ghost": {"unboxed": ("vl", "nil()", "app(unboxed, cons(callee_result('_unbox', 0), nil()))"),
                          "seen": ("vl", "nil()", "app(seen, cons(callee_arg('_unbox', 0, 'package'), nil()))")},
                "invariant": ["acc == unboxed", "app(seen, rest) == iter_source(payload(package))",
                              "plain_list(rest)", "all_slots_ok(self._local_objects._dict)",
                              "cache_ok(self._proxy_cache._dict, self)"],
                "body_events": ["n_callees('_unbox') == 1 and n_events() == 1 and "
                                "same(callee_arg('_unbox', 0, 'package'), item)"],
                "step_hints": ["app_app1(old_seen, item, rest)"],
                "snoc_hints": ["snoc_is_app(acc, x)"],
                "exit_hints": ["app_nil(seen)"]}}
    ANY_RAISE = {"BaseException": {"props": P3, "modifies": UNBOX_IO, "state": ["cache_ok(self._proxy_cache._dict, self)"]}}
    S.contract(F + "_unbox", params={"self": "obj:Connection", "package": "val"}, result="val", loops=LOOP, solver_pruning=True,
               # which case applies is decided by the label alone (one behaviour per label; `other` = anything else)
               dispatch=[(LV, "by_value"), (LL, "local_reference"), (LT, "tuple"), (LR, "remote_reference"), (None, "other")],
               behaviours={
                   "by_value": dict(requires=INV + [LV], modifies=[], raises={},
                                    ensures=dict(CACHE, the_value_itself=("same(result, payload(package))", P3),
                                                 nothing_else_happens=("n_events() == 0", P3))),
                   # a reference handed back to its owner resolves through THIS connection's table, and only through it;
                   # an id that is not in the table (never lent on this connection, or released) is refused: KeyError
                   "local_reference": dict(
                       requires=INV + [LL], modifies=[], returns_when=["haskey(self._local_objects._dict, payload(package))"],
                       ensures=dict(CACHE, local_reference_is_the_lent_object=(
                           "haskey(self._local_objects._dict, payload(package)) and "
                           "same(result, lent(self._local_objects._dict, payload(package)))", P3),
                           only_through_this_connections_table=(
                               "n_events() == 1 and n_callees('__getitem__') == 1 and "
                               "callee_arg('__getitem__', 0, 'self') is self._local_objects", P3)),
                       raises={"KeyError": {"only_when": "not haskey(self._local_objects._dict, payload(package))", "props": P3,
                                            "modifies": [], "state": ["n_events() == 1 and n_callees('__getitem__') == 1"]}}),
                   "tuple": dict(requires=INV + [LT], modifies=UNBOX_IO, raises=ANY_RAISE,
                                 ensures=dict(CACHE, tuple_item_wise_in_order=(
                                     "istuple(result) and n_ev('Loop') == 1 and "
                                     "loop_ghost(0, 'unboxed') == items(result) and loop_ghost(0, 'seen') == iter_source(payload(package))", P3))),
                   "remote_reference": dict(
                       requires=INV + [LR], modifies=UNBOX_IO, raises=ANY_RAISE,
                       ensures=dict(CACHE,
                                    remote_reference_is_a_proxy_for_that_id=(
                                        "is_netref(result) and "
                                        "implies(is_id_pack(payload(package)), same(netref_idpack(result), payload(package))) and "
                                        "same(netref_conn(result), self) and haskey(self._proxy_cache._dict, netref_idpack(result)) and "
                                        "same(self._proxy_cache._dict[netref_idpack(result)], result)", P3),
                                    # the same remote object received again while its proxy is alive IS that proxy, count bumped
                                    # the same remote object received again while its proxy is alive IS that proxy, count bumped;
                                    # otherwise a new proxy with count 1 (which of the two: whether one was cached)
                                    same_proxy_while_alive=(
                                        "implies(is_id_pack(payload(package)) and old(haskey(self._proxy_cache._dict, payload(package))), "
                                        "same(result, old(self._proxy_cache._dict[payload(package)])) and "
                                        "refcount(result) == old(refcount(result)) + 1)", ["C03", "C10"]),
                                    new_proxy_counts_one=(
                                        "implies(is_id_pack(payload(package)) and not old(haskey(self._proxy_cache._dict, payload(package))), "
                                        "refcount(result) == 1)", ["C03", "C10"]),
                                    other_proxies_untouched=(
                                        # (creating a new proxy may inspect the remote class by a nested request, during which other
                                        # traffic is served: nothing is promised about other proxies then)
                                        "implies(is_id_pack(payload(package)) and old(haskey(self._proxy_cache._dict, payload(package))), "
                                        "unchanged_except(self._proxy_cache._dict, netref_idpack(result)) and "
                                        "counts_unchanged_except(result))", ["C03", "C10"]),
                                    factory_only_when_not_cached=(
                                        "implies(is_id_pack(payload(package)), n_callees('_netref_factory') == "
                                        "(0 if old(haskey(self._proxy_cache._dict, payload(package))) else 1))", ["C03", "C10"]))),
                   # all labels at once, for callers that do not care which (one path instead of five)
                   "any": dict(requires=INV, modifies=UNBOX_IO, raises=ANY_RAISE,
                               ensures=dict(CACHE,
                                            by_value=("implies(%s, same(result, payload(package)))" % LV, P3),
                                            local_reference_is_the_lent_object=(
                                                "implies(%s, haskey(self._local_objects._dict, payload(package)) and "
                                                "same(result, lent(self._local_objects._dict, payload(package))))" % LL, P3),
                                            only_known_labels=("%s or %s or %s or %s" % (LV, LT, LL, LR), P3))),
                   "other": dict(requires=INV + ["not %s" % LV, "not %s" % LL, "not %s" % LT, "not %s" % LR], modifies=[], noreturn=True,
                                 raises={"ValueError": {"props": P3, "modifies": [], "state": ["n_events() == 0"]},
                                         "TypeError": {"props": P3, "modifies": [], "state": ["n_events() == 0"]}}),
               })
