"""Contracts for the attribute-access part of rpyc/core/protocol.py (C06, C07, C02):
Connection._check_attr, _access_attr and the handlers that route through them."""
F = "rpyc/core/protocol.py::Connection."
P6 = ["C06", "C07", "C02"]

SWITCHES = ["allow_all_attrs", "allow_exposed_attrs", "allow_safe_attrs", "allow_public_attrs",
            "allow_getattr", "allow_setattr", "allow_delattr"]
# type invariant of a connection's configuration (is_valid-style precondition): the switches are bools,
# the prefix is text, the safe list is present
CONFIG_VALID = ["haskey(self._config, '%s') and isvbool(self._config['%s'])" % (k, k) for k in SWITCHES] + \
               ["haskey(self._config, 'exposed_prefix') and isstr(self._config['exposed_prefix'])",
                "haskey(self._config, 'safe_attrs')"]


def register(S):
    S.declare_fields("Connection", _config="dict")
    S.contract(F + "_check_attr", params={"self": "obj:Connection", "obj": "val", "name": "str", "perm": "str"},
               result="str", effect_free=True,
               requires=CONFIG_VALID + ["haskey(self._config, perm) and isvbool(self._config[perm])"],
               ensures={"only_if_permitted": ("permitted(self._config, obj, name, perm)", P6),
                        "accesses_the_right_name": ("resolves_correctly(self._config, obj, name, result)", P6),
                        "no_effect": ("n_events() == 0", P6)},
               raises={"AttributeError": {"only_when": "not permitted(self._config, obj, name, perm)",
                                          "state": ["n_events() == 0"], "props": P6}},
               modifies=[])

    HOOK = "class_attr(obj, overrider, None)"
    CALL_OK = ("right_call(self._config, obj, name, args, %s, default, param, call_fn(0), call_args(0))" % HOOK)
    S.contract(F + "_access_attr",
               params={"self": "obj:Connection", "obj": "val", "name": "val", "args": "vl", "overrider": "str",
                       "param": "str", "default": "val"},
               result="val", effects={"normal": 1, "raise": (0, 1)},
               requires=CONFIG_VALID + ["haskey(self._config, param) and isvbool(self._config[param])"],
               ensures={"exactly_one_access": ("n_calls() == 1 and n_events() == 1", P6),
                        "the_right_access": (CALL_OK, P6),
                        "returns_its_result": ("same(result, call_result(0))", P6 + ["C01"])},
               raises={"BaseException": {"props": P6, "state": [
                   "n_calls() <= 1 and n_events() == n_calls()",
                   # nothing was touched: the name is not text (TypeError), not decodable, or the policy denies it
                   "implies(n_calls() == 0, (exc_is(exc, 'TypeError') and not isstr(name) and not isbytes(name)) or "
                   "(exc_is(exc, 'UnicodeDecodeError') and isbytes(name)) or "
                   "(exc_is(exc, 'AttributeError') and isnone(%s) and (isstr(name) or isbytes(name)) and "
                   "not permitted(self._config, obj, text_of(name), param)))" % HOOK,
                   "implies(n_calls() == 1, %s)" % CALL_OK]}},
               modifies=[])

    # ---- handlers: each one routes through _access_attr / _handle_getattr with the right triple ---------------
    def routed(handler, params, overrider, perm, accessor, args_expr, name_expr="name", obj_expr="obj"):
        ok = ("n_callees('_access_attr') == 1 and n_events() == 1 and "
              "same(callee_arg('_access_attr', 0, 'obj'), %s) and same(callee_arg('_access_attr', 0, 'name'), %s) and "
              "callee_arg('_access_attr', 0, 'args') == %s and "
              "callee_arg('_access_attr', 0, 'overrider') == '%s' and callee_arg('_access_attr', 0, 'param') == '%s' and "
              "same(callee_arg('_access_attr', 0, 'default'), val(%s))" % (obj_expr, name_expr, args_expr, overrider, perm, accessor))
        S.contract(F + handler, params=params, result="val", requires=CONFIG_VALID,
                   ensures={"routes_through_the_policy": (ok, P6),
                            "returns_its_result": ("same(result, callee_result('_access_attr', 0))", P6 + ["C01"])},
                   raises={"BaseException": {"state": [ok], "props": P6}}, modifies=[])

    conn = {"self": "obj:Connection", "obj": "val", "name": "val"}
    routed("_handle_getattr", conn, "_rpyc_getattr", "allow_getattr", "getattr", "nil()")
    routed("_handle_delattr", conn, "_rpyc_delattr", "allow_delattr", "delattr", "nil()")
    routed("_handle_setattr", dict(conn, value="val"), "_rpyc_setattr", "allow_setattr", "setattr", "cons(value, nil())")

    S.contract(F + "_handle_call", params={"self": "obj:Connection", "obj": "val", "args": "val", "kwargs": "val"},
               result="val",
               ensures={"one_call_with_these_arguments": (
                   "n_calls() == 1 and n_events() == 1 and same(call_fn(0), obj) and "
                   "call_args(0) == (items(args) if istuple(args) else iter_items(args)) and "
                   "same(call_kwargs(0), dict_of(kwargs))", ["C01", "C02", "C06", "C07"]),
                   "returns_its_result": ("same(result, call_result(0))", ["C01", "C02"])},
               raises={"BaseException": {"state": [
                   "n_calls() <= 1 and n_events() == n_calls()",
                   "implies(n_calls() == 1, same(call_fn(0), obj) and "
                   "call_args(0) == (items(args) if istuple(args) else iter_items(args)) "
                   "and same(call_kwargs(0), dict_of(kwargs)))"], "props": ["C01", "C02", "C06", "C07"]}},
               effects={"normal": 1, "raise": (0, 1)}, modifies=[])

    GA = "_handle_getattr"
    S.contract(F + "_handle_callattr",
               params={"self": "obj:Connection", "obj": "val", "name": "val", "args": "val", "kwargs": "val"}, result="val",
               requires=CONFIG_VALID,
               ensures={"callable_obtained_through_the_policy": (
                   "n_callees('_handle_getattr') == 1 and n_callees('_handle_call') == 1 and n_events() == 2 and "
                   "same(callee_arg('_handle_getattr', 0, 'obj'), obj) and same(callee_arg('_handle_getattr', 0, 'name'), name) and "
                   "same(callee_arg('_handle_call', 0, 'obj'), callee_result('_handle_getattr', 0)) and "
                   "same(callee_arg('_handle_call', 0, 'args'), args) and same(callee_arg('_handle_call', 0, 'kwargs'), kwargs)",
                   P6 + ["C01"]),
                   "returns_its_result": ("same(result, callee_result('_handle_call', 0))", P6 + ["C01"])},
               raises={"BaseException": {"props": P6, "state": [
                   "n_callees('_handle_getattr') == 1 and n_callees('_handle_call') <= 1 and "
                   "n_events() == 1 + n_callees('_handle_call')",
                   "same(callee_arg('_handle_getattr', 0, 'obj'), obj) and same(callee_arg('_handle_getattr', 0, 'name'), name)",
                   "implies(n_callees('_handle_call') == 1, "
                   "same(callee_arg('_handle_call', 0, 'obj'), callee_result('_handle_getattr', 0)) and "
                   "same(callee_arg('_handle_call', 0, 'args'), args) and same(callee_arg('_handle_call', 0, 'kwargs'), kwargs))"]}},
               modifies=[])

    CMP_ROUTE = ("n_callees('_access_attr') == 1 and same(callee_arg('_access_attr', 0, 'obj'), typeobj(obj)) and "
                 "same(callee_arg('_access_attr', 0, 'name'), op) and callee_arg('_access_attr', 0, 'args') == nil() and "
                 "callee_arg('_access_attr', 0, 'overrider') == '_rpyc_getattr' and "
                 "callee_arg('_access_attr', 0, 'param') == 'allow_getattr' and "
                 "same(callee_arg('_access_attr', 0, 'default'), val(getattr))")
    CMP_CALL = ("same(call_fn(0), callee_result('_access_attr', 0)) and call_args(0) == cons(obj, cons(other, nil()))")
    S.contract(F + "_handle_cmp", params={"self": "obj:Connection", "obj": "val", "other": "val", "op": "val"},
               result="val", requires=CONFIG_VALID, effects={"normal": 1, "raise": (0, 1)},
               ensures={"operator_obtained_through_the_policy": (CMP_ROUTE + " and n_calls() == 1 and n_events() == 2 and " + CMP_CALL, P6),
                        "returns_its_result": ("same(result, call_result(0))", P6)},
               raises={"BaseException": {"props": P6, "state": [
                   CMP_ROUTE + " and n_calls() <= 1 and n_events() == 1 + n_calls()",
                   "implies(n_calls() == 1, " + CMP_CALL + ")"]}},
               modifies=[])

    ONLY_VIA_GETATTR = "all_calls_from_callee('_handle_getattr') and n_events() == n_calls() + n_callees('_handle_getattr')"
    S.contract(F + "_handle_ctxexit", params={"self": "obj:Connection", "obj": "val", "exc": "val"}, result="val",
               requires=CONFIG_VALID, effects={"normal": 1, "raise": (0, 1)},
               ensures={"exit_obtained_through_the_policy": (
                   "n_callees('_handle_getattr') == 1 and same(callee_arg('_handle_getattr', 0, 'obj'), obj) and "
                   "same(callee_arg('_handle_getattr', 0, 'name'), mkstr('__exit__')) and n_calls() == 1 and " + ONLY_VIA_GETATTR, P6)},
               raises={"BaseException": {"props": P6, "state": [
                   "n_callees('_handle_getattr') <= 1 and n_calls() <= n_callees('_handle_getattr') and " + ONLY_VIA_GETATTR,
                   "implies(n_callees('_handle_getattr') == 1, same(callee_arg('_handle_getattr', 0, 'obj'), obj) and "
                   "same(callee_arg('_handle_getattr', 0, 'name'), mkstr('__exit__')))"]}},
               modifies=[])
    S.contract(F + "_handle_oldslicing",
               params={"self": "obj:Connection", "obj": "val", "attempt": "val", "fallback": "val", "start": "val",
                       "stop": "val", "args": "val"}, result="val",
               requires=CONFIG_VALID, effects={"normal": (1, 2), "raise": (0, 2)},
               ensures={"slicers_obtained_through_the_policy": (
                   "n_callees('_handle_getattr') >= 1 and all_getattr_on(obj) and " + ONLY_VIA_GETATTR, P6)},
               raises={"BaseException": {"props": P6, "state": ["all_getattr_on(obj) and " + ONLY_VIA_GETATTR]}},
               modifies=[])

    # ---- objects with their own hooks -----------------------------------------------------------------------
    G = "rpyc/core/service.py::Service."
    for m, params in (("_rpyc_delattr", {"self": "any", "name": "any"}), ("_rpyc_setattr", {"self": "any", "name": "any", "value": "any"})):
        S.contract(G + m, params=params, noreturn=True, effect_free=True,
                   raises={"AttributeError": {"props": ["C06", "C07"]}}, modifies=[])
