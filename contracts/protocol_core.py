"""Contracts for the core of rpyc/core/protocol.py: _send (C12 single-thread re-entrancy, C08.2),
request dispatch and reply correlation (C08), message layouts (C19)."""
F = "rpyc/core/protocol.py::Connection."
SOCK = "self._channel.stream.sock"
VCACHE = "global:rpyc.core.vinegar:_generic_exceptions_cache"          # vinegar's module-level cache of stand-in classes
VCACHE_OK = "generic_cache_ok(module_global('rpyc.core.vinegar', '_generic_exceptions_cache'))"
# everything a message exchange on this connection may touch (frame of the I/O paths)
CONN_IO_OK = ["self._send_queue", "self._sendlock.held", SOCK + ".outbuf", SOCK + ".inbuf", "self._seqcounter.nxt",
              "self._local_objects._dict", "self._request_callbacks", "self._closed", "self._last_traceback",
              "self._proxy_cache._dict", "$refcounts", "$sysmodules", VCACHE]
# ... plus, when the connection goes down (transport failure, or the peer's close request was served): the teardown
TEARDOWN = ["self._netref_classes_cache", "self._remote_root", "self._local_root", "self._HANDLERS"]
CONN_IO_DEAD = CONN_IO_OK + [SOCK, SOCK + ".shut_attempted", SOCK + ".closed", SOCK + ".failed"]
CONN_IO = CONN_IO_DEAD + TEARDOWN
# an exceptional exit: either the transport is still open (same socket object) or it died and the stream is closed
MAYBE_DEAD = [{"label": "transport open", "sets": {"self._channel.stream.sock": "old(self._channel.stream.sock)"},
               "modifies": CONN_IO_OK},
              {"label": "transport died", "sets": {"self._channel.stream.sock": "ClosedFile"}, "modifies": CONN_IO_DEAD}]
# sending only (no incoming message is dispatched): vinegar's cache and the set of imported modules are out of reach
SEND_OK = [m for m in CONN_IO_OK if m not in ("$sysmodules", VCACHE)]
MAYBE_DEAD_SEND = [dict(MAYBE_DEAD[0], modifies=SEND_OK),
                   dict(MAYBE_DEAD[1], modifies=SEND_OK + [SOCK, SOCK + ".shut_attempted", SOCK + ".closed", SOCK + ".failed"])]
# ... or, on paths that dispatch incoming messages, the whole connection went down (the peer's close request)
MAYBE_DOWN = [MAYBE_DEAD[0], {"label": "connection down", "sets": {"self._channel.stream.sock": "ClosedFile"}, "modifies": CONN_IO}]
# class invariant of a connection used throughout: every slot of the table of lent objects is well formed
TABLE_OK = "all_slots_ok(self._local_objects._dict) and cache_ok(self._proxy_cache._dict, self) and " + VCACHE_OK
OPEN = [SOCK + " is not ClosedFile", "not %s.failed" % SOCK]
# type invariant of the configuration entries the exception serializer reads
EXC_CONFIG = ["haskey(self._config, '%s') and isvbool(self._config['%s'])" % (k, k)
              for k in ("import_custom_exceptions", "instantiate_custom_exceptions")] + \
             ["haskey(self._config, 'instantiate_oldstyle_exceptions')", "haskey(self._config, 'include_local_traceback')",
              "haskey(self._config, 'include_local_version')"]
P = ["C08", "C12", "C01", "C19"]


def register(S):
    register_send(S)
    register_dispatch(S)
    register_requests(S)
    register_api(S)


def register_send(S):
    S.declare_fields("Connection", _send_queue="vlist", _sendlock="obj:Lock", _channel="obj:Channel", _closed="bool")
    MSG = "mkbytes(message(msg, seq, args))"
    TRIPLE = "mktuple(cons(msg, cons(seq, cons(args, nil()))))"
    WHY = {"TypeError": "not plain(%s)" % TRIPLE, "ValueError": "not sized(%s)" % TRIPLE,
           "struct.error": "not sized(%s) or not fits_sent(enc(%s), self._channel.compress)" % (TRIPLE, TRIPLE)}
    ENC_RAISES = {n: {"only_when": WHY[n],
                      # an encoding failure happens before anything is queued, locked or written
                      "state": ["self._send_queue.items == old(self._send_queue.items)",
                                "self._sendlock.held == old(self._sendlock.held)",
                                "%s is old(%s)" % (SOCK, SOCK), "%s.outbuf == old(%s.outbuf)" % (SOCK, SOCK)],
                      "modifies": [], "props": ["C08", "C12"]} for n in ("TypeError", "ValueError", "struct.error")}
    # struct.error can also come from the frame header of a message of 4 GiB or more, i.e. after it was dequeued
    ENC_RAISES["struct.error"] = dict(ENC_RAISES["struct.error"], modifies=["self._send_queue"],
                                      state=ENC_RAISES["struct.error"]["state"][1:])
    S.contract(F + "_send", params={"self": "obj:Connection", "msg": "val", "seq": "val", "args": "val"},
               dispatch=[("self._sendlock.held", "held"), (SOCK + " is ClosedFile", "closed"), (None, "free")],
               behaviours={
                   # the transport is already closed: the message cannot go out; EOFError, lock free afterwards
                   "closed": dict(init={"self._send_queue.items": "nil()", "self._sendlock.held": "False",
                                        "self._channel.stream.sock": "ClosedFile"}, noreturn=True,
                                  raises=dict({n: {"only_when": ENC_RAISES[n]["only_when"], "modifies": [], "props": ["C08"],
                                                   "state": ["not self._sendlock.held", "isnil(self._send_queue.items)"]}
                                               for n in ENC_RAISES}, EOFError={
                                      "state": ["not self._sendlock.held", SOCK + " is ClosedFile"], "props": P + ["C11"],
                                      "modifies": ["self._send_queue"]}),
                                  modifies=[], loops={0: {
                                      "invariant": ["not self._sendlock.held", SOCK + " is ClosedFile",
                                                    "self._send_queue.items == cons(%s, nil())" % MSG]}}),
                   # entered while this thread is already inside a send (a finalizer ran during transmission):
                   # the message is only queued; the outer send transmits it
                   "held": dict(requires=["self._sendlock.held"],
                                ensures={"queued_for_the_outer_send": (
                                    "self._send_queue.items == app(old(self._send_queue.items), cons(%s, nil()))" % MSG, P),
                                    "nothing_transmitted": ("%s.outbuf == old(%s.outbuf)" % (SOCK, SOCK), P),
                                    "lock_untouched": ("self._sendlock.held", P)},
                                raises=ENC_RAISES, modifies=["self._send_queue"],
                                loops={0: {"invariant": ["self._sendlock.held"]}}),
                   "free": dict(unfold_depth=1, init={"self._send_queue.items": "nil()"},
                                requires=["not self._sendlock.held", "isnil(self._send_queue.items)"] + OPEN,
                                ensures={"nothing_left_queued": ("isnil(self._send_queue.items)", P),
                                         "lock_released": ("not self._sendlock.held", P),
                                         # every message appended by this call or by a send nested inside it went out
                                         # exactly once, each as one contiguous frame, in append order; the first is ours
                                         "internal_all_transmitted_once_in_order": (
                                             "old(%s).outbuf == old(%s.outbuf) + frames(A, self._channel.compress) and "
                                             "same(head(A), %s)" % (SOCK, SOCK, MSG), P),
                                         # what a caller may rely on: our message went out first, as one whole frame
                                         "transmitted": (
                                             "startswith(old(%s).outbuf, old(%s.outbuf) + frame(as_bytes(%s), "
                                             "published_flag(as_bytes(%s), self._channel.compress)))" % (SOCK, SOCK, MSG, MSG), P),
                                         "still_open": ("%s is old(%s)" % (SOCK, SOCK), P)},
                                raises=dict(ENC_RAISES, EOFError={
                                    "state": ["not self._sendlock.held", SOCK + " is ClosedFile"], "props": P + ["C11"],
                                    "sets": {"self._channel.stream.sock": "ClosedFile"},
                                    "modifies": ["self._send_queue", "self._sendlock.held", SOCK, SOCK + ".outbuf",
                                                 SOCK + ".shut_attempted", SOCK + ".closed", SOCK + ".failed"]}),
                                modifies=["self._send_queue", "self._sendlock.held", SOCK + ".outbuf"],
                                calls={"send": {"interference": {
                                    "vlist": "self._send_queue", "ghost": "A", "assume": ["all_fit(extra, self._channel.compress)"],
                                    "hints": ["frames_app(Q_before, extra, self._channel.compress)",
                                              "frames_app(A_before, extra, self._channel.compress)",
                                              "all_fit_app(Q_before, extra, self._channel.compress)"]}}},
                                loops={0: {
                                    "ghost": {"A": ("vl", "self._send_queue.items", "A")},
                                    "modifies": ["self._send_queue", SOCK + ".outbuf"],
                                    "havoc": {"data": "val"},
                                    "invariant": [
                                        "not self._sendlock.held",
                                        "%s is old(%s)" % (SOCK, SOCK), "not %s.failed" % SOCK,
                                        # our own message may exceed the format's limit (then the first transmission
                                        # fails with struct.error); everything appended by nested sends fits (scope)
                                        "all_fit(self._send_queue.items, self._channel.compress) if fits_sent(as_bytes(%s), self._channel.compress) else "
                                        "(self._send_queue.items == cons(%s, nil()) and %s.outbuf == old(%s.outbuf))" % (
                                            MSG, MSG, SOCK, SOCK),
                                        "%s.outbuf + frames(self._send_queue.items, self._channel.compress) == "
                                        "old(%s.outbuf) + frames(A, self._channel.compress)" % (SOCK, SOCK),
                                        "not isnil(A) and same(head(A), %s)" % MSG]}}),
               })


def register_dispatch(S):
    """request dispatch and reply correlation (C08)"""
    P8 = ["C08", "C01", "C07"]
    S.declare_fields("Connection", _request_callbacks="dict", _last_traceback="val", _seqcounter="obj:count",
                     _local_objects="obj:RefCountingColl")
    S.declare_fields("count", nxt="int")
    S.external("count.__next__", params={"self": "obj:count"}, result="int",
               note="next(itertools.count()): returns the counter and increments it (strictly increasing, never repeats)",
               outcomes=[{"label": "ok", "modifies": ["self.nxt"],
                          "assume": ["result == old(self.nxt)", "self.nxt == old(self.nxt) + 1"]}])
    S.contract(F + "_get_seq_id", params={"self": "obj:Connection"}, result="int",
               ensures={"fresh_and_increasing": ("result == old(self._seqcounter.nxt) and "
                                                 "self._seqcounter.nxt == old(self._seqcounter.nxt) + 1", P8 + ["C13"])},
               raises={}, modifies=["self._seqcounter.nxt"])

    # the handler table call `self._HANDLERS[handler](self, *args)` abstracted: at most one handler runs, once.
    # A handler runs arbitrary code of the service, which may call back into the peer (nested requests, to any depth,
    # C01): so it may touch everything a message exchange on this connection touches, preserving the class invariants
    # (each nested exchange is itself one of the functions under contract), and it leaves the send machinery quiescent.
    CS = "conn._channel.stream.sock"
    RUNS = ["known_handler(handler)", "not is_close_handler(handler)"]
    HR_MOD = ["conn._last_traceback", "conn._local_objects._dict", "conn._proxy_cache._dict", "$refcounts", "$sysmodules", VCACHE,
              "conn._seqcounter.nxt", "conn._request_callbacks", CS + ".outbuf", CS + ".inbuf"]
    HR_INV = ["implies(old(all_slots_ok(conn._local_objects._dict)), all_slots_ok(conn._local_objects._dict))",
              "implies(old(cache_ok(conn._proxy_cache._dict, conn)), cache_ok(conn._proxy_cache._dict, conn))",
              "conn._seqcounter.nxt >= old(conn._seqcounter.nxt)", "implies(old(%s), %s)" % (VCACHE_OK, VCACHE_OK)]
    HR_DOWN = HR_MOD + ["conn._closed", "conn._netref_classes_cache", "conn._remote_root", "conn._local_root", "conn._HANDLERS",
                        CS + ".shut_attempted", CS + ".closed", CS + ".failed"]
    HR_INV_DOWN = HR_INV + ["implies(not conn._closed, conn._local_root is old(conn._local_root))",
                            "implies(old(conn._closed), conn._closed)"]
    S.external("handler_run", params={"conn": "obj:Connection", "handler": "val", "self_arg": "any", "args": "val"},
               result="val",
               note="table dispatch to one of the 20 request handlers: unknown/unhashable handler number or wrong "
                    "arguments -> KeyError/TypeError and NO handler runs; otherwise exactly one handler runs once "
                    "(ghost event HandlerRun) and returns or raises anything; only the close handler closes",
               outcomes=[
                   {"label": "unknown handler", "raise": "KeyError", "when": ["not known_handler(handler)"], "at": "lookup"},
                   {"label": "not callable that way", "raise": "TypeError"},
                   {"label": "returns", "when": RUNS, "events": [("HandlerRun", "handler", "args")], "modifies": HR_MOD, "assume": HR_INV},
                   {"label": "raises", "raise": "*", "when": RUNS, "events": [("HandlerRun", "handler", "args")],
                    "modifies": HR_MOD, "assume": HR_INV},
                   # ... and the connection may have gone down meanwhile (a nested request of the handler met a dead transport
                   # and the handler swallowed the error; or nested traffic carried the peer's close request)
                   {"label": "returns, connection went down", "when": RUNS, "events": [("HandlerRun", "handler", "args")],
                    "sets": {"conn._channel.stream.sock": "ClosedFile"}, "modifies": HR_DOWN, "assume": HR_INV_DOWN},
                   {"label": "raises, connection went down", "raise": "*", "when": RUNS, "events": [("HandlerRun", "handler", "args")],
                    "sets": {"conn._channel.stream.sock": "ClosedFile"}, "modifies": HR_DOWN, "assume": HR_INV_DOWN},
                   # the peer's close request: Connection._handle_close -> _cleanup (its contract: closed, clean, hook once)
                   {"label": "close handler", "when": ["is_close_handler(handler)"], "events": [("HandlerRun", "handler", "args")],
                    "sets": {"conn._channel.stream.sock": "ClosedFile"},
                    "modifies": ["conn._closed", "conn._request_callbacks", "conn._local_objects._dict", "conn._proxy_cache._dict",
                                 "conn._netref_classes_cache", "conn._last_traceback", "conn._remote_root", "conn._local_root",
                                 "conn._HANDLERS"],
                    "assume": ["conn._closed", "isnone(conn._local_root)", "dict_empty(conn._request_callbacks)",
                               "dict_empty(conn._local_objects._dict)", "dict_empty(conn._proxy_cache._dict)",
                               "dict_empty(conn._netref_classes_cache)"]},
               ])
    QUIET = {"self._sendlock.held": "False", "self._send_queue.items": "nil()"}     # not inside a send
    ONE_REPLY = ("n_callees('_send') == 1 and same(callee_arg('_send', 0, 'seq'), seq) and "
                 "(same(callee_arg('_send', 0, 'msg'), MSG_REPLY) or same(callee_arg('_send', 0, 'msg'), MSG_EXCEPTION))")
    S.contract(F + "_dispatch_request", params={"self": "obj:Connection", "seq": "val", "raw_args": "val"},
               abstract_calls={"self._HANDLERS[handler]": "handler_run", "logger.debug": "log"},
               calls={"_unbox": {"behaviour": "any"}},
               init=QUIET,
               requires=["plain(seq)", "sized(seq)", "plain(raw_args)", "haskey(self._config, 'logger')",
                         "not self._closed", "not isnone(self._local_root)", TABLE_OK,
                         "haskey(self._config, 'propagate_SystemExit_locally')",
                         "haskey(self._config, 'propagate_KeyboardInterrupt_locally')",
                         "haskey(self._config, 'include_local_traceback')", "haskey(self._config, 'include_local_version')"] + OPEN,
               ensures={"quiescent_after": ("isnil(self._send_queue.items) and not self._sendlock.held and "
                                            "implies(not self._closed, not isnone(self._local_root)) and " + TABLE_OK,
                                            ["C11", "C08", "C12"]),
                        "exactly_one_response_with_the_requests_number": (ONE_REPLY, P8),
                        "executed_at_most_once": ("n_ev('HandlerRun') <= 1", P8),
                        "result_goes_into_a_reply": ("implies(same(callee_arg('_send', 0, 'msg'), MSG_REPLY), "
                                                     "n_ev('HandlerRun') == 1 and n_callees('_box') == 1 and "
                                                     "same(callee_arg('_send', 0, 'args'), callee_result('_box', 0)))", P8)},
               raises={
                   "EOFError": {"state": [ONE_REPLY, "n_ev('HandlerRun') <= 1", "not self._sendlock.held", TABLE_OK,
                                          "implies(not self._closed, not isnone(self._local_root))"], "props": P8 + ["C11"],
                                "sets": {"self._channel.stream.sock": "ClosedFile"},
                                "modifies": CONN_IO},
                   "SystemExit": {"only_when": "truthy(self._config['propagate_SystemExit_locally'])",
                                  "state": ["n_ev('HandlerRun') <= 1", "n_callees('_send') == 0", "not self._sendlock.held", TABLE_OK,
                                            "implies(not self._closed, not isnone(self._local_root))"], "props": P8,
                                  "variants": MAYBE_DOWN},
                   "KeyboardInterrupt": {"only_when": "truthy(self._config['propagate_KeyboardInterrupt_locally'])",
                                         "state": ["n_ev('HandlerRun') <= 1", "n_callees('_send') == 0", "not self._sendlock.held", TABLE_OK,
                                                   "implies(not self._closed, not isnone(self._local_root))"], "props": P8,
                                         "variants": MAYBE_DOWN},
               },
               modifies=["self._send_queue", "self._sendlock.held", SOCK + ".outbuf", SOCK + ".inbuf", "self._closed",
                         "self._last_traceback", "self._local_objects._dict", "self._proxy_cache._dict", "$refcounts",
                         "self._seqcounter.nxt", "self._request_callbacks", "$sysmodules", VCACHE])

    S.contract(F + "_seq_request_callback",
               params={"self": "obj:Connection", "msg": "val", "seq": "val", "is_exc": "bool", "obj": "val"},
               abstract_calls={"self._config['logger'].debug": "log"}, effects={"normal": (0, 1), "raise": (1, 1)},
               requires=["haskey(self._config, 'logger')"],
               ensures={"entry_removed_only_it": ("not haskey(self._request_callbacks, seq) and "
                                                  "unchanged_except(self._request_callbacks, seq)", P8),
                        "delivered_once_to_its_requester": (
                            "n_calls() == (1 if old(haskey(self._request_callbacks, seq)) and "
                            "not isnone(old(self._request_callbacks[seq])) else 0) and n_events() == n_calls() and "
                            "implies(n_calls() == 1, same(call_fn(0), old(self._request_callbacks[seq])) and "
                            "call_args(0) == cons(is_exc, cons(obj, nil())))", P8)},
               raises={"BaseException": {"props": P8, "state": [
                   "not haskey(self._request_callbacks, seq) and unchanged_except(self._request_callbacks, seq)",
                   "n_calls() == 1 and same(call_fn(0), old(self._request_callbacks[seq]))"]}},
               modifies=["self._request_callbacks"])


def register_requests(S):
    """issuing requests and routing incoming messages (C08, C15, C01, C19)"""
    P8 = ["C08", "C01", "C19"]
    QUIET = {"self._sendlock.held": "False", "self._send_queue.items": "nil()"}
    # ---- incoming: one message, routed by its kind ------------------------------------------------------------
    S.contract(F + "_dispatch", params={"self": "obj:Connection", "data": "val"}, init=QUIET,
               requires=["isbytes(data)", "haskey(self._config, 'logger')", "not self._closed", "not isnone(self._local_root)",
                         TABLE_OK,
                         "haskey(self._config, 'propagate_SystemExit_locally')",
                         "haskey(self._config, 'propagate_KeyboardInterrupt_locally')"] + EXC_CONFIG + OPEN,
               calls={"load": {"behaviour": "safety"}, "_unbox": {"behaviour": "any"}},
               ensures={"quiescent_after": ("isnil(self._send_queue.items) and not self._sendlock.held and "
                                            "implies(not self._closed, not isnone(self._local_root)) and " + TABLE_OK,
                                            ["C11", "C08", "C12"]),
                        "routed_by_kind": (
                   "n_events() == 1 + n_callees('_unbox') + n_callees('_unbox_exc') and "
                   "n_callees('_dispatch_request') + n_callees('_seq_request_callback') == 1", P8),
                   # C10's accounting assumes that every reference in flight becomes a proxy (whose finalizer returns the count):
                   # a reply that arrives is unboxed, whoever waits - or no longer waits - for it
                   "every_arriving_reply_is_unboxed": (
                   "implies(nth_item(decoded(data), 0) == MSG_REPLY, n_callees('_unbox') == 1 and "
                   "same(callee_arg('_unbox', 0, 'package'), nth_item(decoded(data), 2)))", ["C10", "C08"]),
                   "request_layout": (
                   "implies(n_callees('_dispatch_request') == 1, "
                   "nth_item(decoded(data), 0) == MSG_REQUEST and "
                   "same(callee_arg('_dispatch_request', 0, 'seq'), nth_item(decoded(data), 1)) and "
                   "same(callee_arg('_dispatch_request', 0, 'raw_args'), nth_item(decoded(data), 2)))", P8),
                   "response_to_the_request_with_that_number": (
                   "implies(n_callees('_seq_request_callback') == 1, "
                   "same(callee_arg('_seq_request_callback', 0, 'seq'), nth_item(decoded(data), 1)) and "
                   "(callee_arg('_seq_request_callback', 0, 'is_exc') == False and n_callees('_unbox') == 1 and "
                   " nth_item(decoded(data), 0) == MSG_REPLY and "
                   " same(callee_arg('_seq_request_callback', 0, 'obj'), callee_result('_unbox', 0)) and "
                   " same(callee_arg('_unbox', 0, 'package'), nth_item(decoded(data), 2)) "
                   " if n_callees('_unbox') == 1 else "
                   " callee_arg('_seq_request_callback', 0, 'is_exc') == True and n_callees('_unbox_exc') == 1 and "
                   " nth_item(decoded(data), 0) == MSG_EXCEPTION and "
                   " same(callee_arg('_seq_request_callback', 0, 'obj'), callee_result('_unbox_exc', 0)) and "
                   " same(callee_arg('_unbox_exc', 0, 'raw'), nth_item(decoded(data), 2))))", P8)},
               raises={"BaseException": {"props": P8, "variants": MAYBE_DOWN, "state": [
                   "n_callees('_dispatch_request') + n_callees('_seq_request_callback') <= 1",
                   "not self._sendlock.held", "implies(not self._closed, not isnone(self._local_root))", TABLE_OK]}},
               modifies=CONN_IO_OK)
    # ---- outgoing: the callback is registered under a fresh number BEFORE the request is sent --------------------
    S.contract(F + "_async_request", params={"self": "obj:Connection", "handler": "val", "args": "val", "callback": "val"},
               dispatch=[(SOCK + " is ClosedFile", "closed"), (None, "default")],
               behaviours={"closed": dict(
                   # issued after the connection's transport is gone: EOFError, and no callback stays registered
                   init=dict(QUIET, **{"self._channel.stream.sock": "ClosedFile"}), noreturn=True,
                   requires=["plain(handler)", "sized(handler)", TABLE_OK],
                   raises={"EOFError": {"props": ["C11", "C08"], "modifies": ["self._request_callbacks", "self._seqcounter.nxt",
                                                                              "self._local_objects._dict", "self._send_queue"],
                                        "state": ["not self._sendlock.held", "n_callees('_get_seq_id') == 1 and "
                                                  "not haskey(self._request_callbacks, callee_result('_get_seq_id', 0)) and "
                                                  "unchanged_except(self._request_callbacks, callee_result('_get_seq_id', 0))"]},
                           "BaseException": {"props": ["C11"], "state": ["not self._sendlock.held"],
                                             "modifies": ["self._request_callbacks", "self._seqcounter.nxt",
                                                          "self._local_objects._dict", "self._send_queue"]}},
                   modifies=[])},
               init=QUIET, requires=OPEN + ["plain(handler)", "sized(handler)", TABLE_OK],
               ensures={"registered_then_sent": (
                   "n_callees('_get_seq_id') == 1 and n_callees('_box') == 1 and n_callees('_send') == 1 and n_events() == 3 and "
                   "same(callee_arg('_send', 0, 'msg'), val(MSG_REQUEST)) and "
                   "same(callee_arg('_send', 0, 'seq'), val(callee_result('_get_seq_id', 0))) and "
                   "same(callee_arg('_send', 0, 'args'), mktuple(cons(handler, cons(callee_result('_box', 0), nil())))) and "
                   "same(callee_arg('_box', 0, 'obj'), args)", P8),
                   "callback_waits_under_that_number": (
                   "haskey(self._request_callbacks, callee_result('_get_seq_id', 0)) and "
                   "same(self._request_callbacks[callee_result('_get_seq_id', 0)], callback) and "
                   "unchanged_except(self._request_callbacks, callee_result('_get_seq_id', 0))", P8),
                   "send_lock_free": ("not self._sendlock.held", ["C11", "C12"])},
               raises={"BaseException": {"props": P8 + ["C11"], "variants": MAYBE_DEAD_SEND, "state": [
                   "not self._sendlock.held",
                   # a failed send leaves no callback behind (for every Exception; a BaseException is not caught)
                   "implies(not exc_is(exc, 'Exception') == False, n_callees('_get_seq_id') == 1 and "
                   "not haskey(self._request_callbacks, callee_result('_get_seq_id', 0)) and "
                   "unchanged_except(self._request_callbacks, callee_result('_get_seq_id', 0)))"]}},
               modifies=SEND_OK)


def register_api(S):
    """async_request / sync_request (C15.7, C08, C01)"""
    P = ["C15", "C08", "C01"]
    TMO = "(self_kwargs_timeout)"
    S.contract(F + "async_request",
               params={"self": "obj:Connection", "handler": "val", "args": "vl", "kwargs": "dict"}, result="obj:AsyncResult",
               init={"self._sendlock.held": "False", "self._send_queue.items": "nil()"}, clock=True,
               ghost={"tmo": "val"},
               # the only keyword accepted is `timeout`; tmo is its value (None when absent)
               requires=OPEN + ["plain(handler)", "sized(handler)", TABLE_OK,
                                "only_key(kwargs, 'timeout')",
                                "same(tmo, kwargs['timeout'] if haskey(kwargs, 'timeout') else None)",
                                "isnone(tmo) or (isnum(tmo) and num_of(tmo) >= 0)"],
               ensures={"pending_result_registered_as_callback": (
                   "result._conn is self and n_callees('_async_request') == 1 and "
                   "same(callee_arg('_async_request', 0, 'handler'), handler) and "
                   "same(callee_arg('_async_request', 0, 'args'), mktuple(args)) and "
                   "callee_arg('_async_request', 0, 'callback') is result", P),
                   # the expiry is set exactly when a timeout was given (zero included), relative to the time of the call
                   "expiry_iff_timeout_given": (
                   "result._ttl.finite == (not isnone(tmo)) and implies(result._ttl.finite, "
                   "old(now()) + num_of(tmo) <= result._ttl.tmax and result._ttl.tmax <= now() + num_of(tmo))", P)},
               raises={"BaseException": {"props": P, "variants": [dict(v, modifies=v["modifies"] + ["kwargs"]) for v in MAYBE_DEAD_SEND]}},
               modifies=SEND_OK + ["kwargs"])
    S.contract(F + "sync_request", params={"self": "obj:Connection", "handler": "val", "args": "vl"}, result="val",
               init={"self._sendlock.held": "False", "self._send_queue.items": "nil()"}, clock=True,
               requires=OPEN + ["plain(handler)", "sized(handler)", TABLE_OK, "haskey(self._config, 'sync_request_timeout')",
                                "isnone(self._config['sync_request_timeout']) or (isnum(self._config['sync_request_timeout']) "
                                "and num_of(self._config['sync_request_timeout']) >= 0)"],
               calls={"async_request": {"ghost": {"tmo": "self._config['sync_request_timeout']"}}},
               # a synchronous request is an asynchronous one carrying the connection's configured timeout
               ensures={"is_async_request_with_the_configured_timeout_then_value": (
                   "n_callees('async_request') == 1 and n_callees('value') == 1 and n_events() == 2 and "
                   "same(callee_arg('async_request', 0, 'handler'), handler) and callee_arg('async_request', 0, 'args') == args and "
                   "same(callee_arg('async_request', 0, 'tmo'), self._config['sync_request_timeout']) and "
                   "callee_arg('value', 0, 'self') is callee_result('async_request', 0) and "
                   "same(result, callee_result('value', 0))", P)},
               raises={"BaseException": {"props": P, "variants": MAYBE_DEAD, "state": [
                   "n_callees('async_request') == 1 and "
                   "same(callee_arg('async_request', 0, 'tmo'), self._config['sync_request_timeout'])"]}},
               modifies=CONN_IO_OK)
