"""Contracts of the ghost clients in spec/scenarios.py: property-level lemmas proved from the contracts of
Connection._box / _unbox (C03 identity clauses, C07 forged references)."""
F = "@verif/spec/scenarios.py::"


def inv(c):
    return ["all_slots_ok(%s._local_objects._dict)" % c, "cache_ok(%s._proxy_cache._dict, %s)" % (c, c)]


def register(S):
    two = {"owner": "obj:Connection", "peer": "obj:Connection", "v": "val"}
    LOCAL_OBJECT = ["not plain(v)", "not istuple(v)", "not is_netref(v)",
                    # get_id_pack's verified postcondition for an object that is not proxy-like
                    "is_id_pack(id_pack(v))",
                    # T-ID: what is lent under v's id pack, if anything, is v (ids of live objects are distinct, the table
                    # keeps what it holds alive)
                    "implies(haskey(owner._local_objects._dict, id_pack(v)), same(lent(owner._local_objects._dict, id_pack(v)), v))"]
    S.contract(F + "echo_returns_the_original", params=two, result="val",
               requires=inv("owner") + inv("peer") + LOCAL_OBJECT,
               ensures={"a_reference_handed_back_is_the_original_object": ("same(result, v)", ["C03", "C01"])},
               raises={"BaseException": {"props": ["C03"], "modifies": ["**"]}}, modifies=["**"])
    S.contract(F + "value_travels_by_copy", params=two, result="val",
               requires=inv("owner") + inv("peer") + ["plain(v)"],
               ensures={"equal_value_of_the_same_type": ("same(result, v)", ["C03", "C01"])},
               raises={}, modifies=["**"])
    S.contract(F + "same_object_same_proxy", params=two, result="val",
               requires=inv("owner") + inv("peer") + LOCAL_OBJECT + ["not haskey(peer._proxy_cache._dict, id_pack(v))"],
               ensures={"received_again_is_the_same_proxy": (
                   "same(head(items(result)), head(tail(items(result)))) and is_netref(head(items(result))) and "
                   "same(netref_idpack(head(items(result))), id_pack(v)) and same(netref_conn(head(items(result))), peer)", ["C03"]),
                   "its_count_is_the_number_of_times_received": (
                       "refcount(head(items(result))) == 2", ["C03", "C10"]),
                   "the_owner_counts_both": (
                       "boxes(owner._local_objects._dict, id_pack(v)) == old(boxes(owner._local_objects._dict, id_pack(v))) + 2", ["C10"])},
               raises={"BaseException": {"props": ["C03"], "modifies": ["**"]}}, modifies=["**"],
               calls={"_box": {"ghost": {"k": "id_pack(v)"}}})
    S.contract(F + "forged_reference_is_refused", params={"owner": "obj:Connection", "forged_id": "val"}, result="val",
               requires=inv("owner") + ["plain(forged_id)", "not haskey(owner._local_objects._dict, forged_id)"], noreturn=True,
               raises={"KeyError": {"props": ["C07", "C03"], "modifies": []}}, modifies=[])
