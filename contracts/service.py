"""Contract for rpyc/core/service.py::Service._connect (C16: `its own service instance`).  The service (a class or an instance:
the method is a hybridmethod) is a dynamic object here: instantiating it, reading `_protocol`, calling it and calling `on_connect`
are ghost events with any outcome."""
F = "rpyc/core/service.py::"


def register(S):
    INST = "call_result(0)"
    IS_CLASS = "is_type_object(self)"
    S.contract(F + "Service._connect", params={"self": "val", "channel": "val", "config": "val"}, result="val", dynamic_errors=True,
               effects={"normal": (2, 3), "raise": (0, 3)},
               ensures={
                   # a server that was given a service CLASS creates a NEW instance for this connection (calls the class, without
                   # arguments, exactly once) and builds the connection around that instance: no state is shared through the
                   # service object between two clients.  Given an instance, that instance is the root.
                   "own_instance_per_connection": (
                       "(n_calls() == 3 and same(call_fn(0), self) and call_args(0) == nil() and "
                       " call_args(1) == cons(call_result(0), cons(channel, cons(config, nil())))) if %s else "
                       "(n_calls() == 2 and call_args(0) == cons(self, cons(channel, cons(config, nil()))))" % IS_CLASS, ["C16"]),
                   # the connection returned is the one the protocol class built, and on_connect ran on it exactly once
                   "returns_the_built_connection": (
                       "same(result, call_result(n_calls() - 2)) and call_args(n_calls() - 1) == cons(result, nil())", ["C16"])},
               raises={"BaseException": {"props": ["C16"], "modifies": []}}, modifies=[])
