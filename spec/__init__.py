"""Spec functions: one source text, compiled to z3 by pyvc.specenv and run natively for replay."""


def spec(fn):
    fn._spec_kind = "plain"
    return fn


def recspec(args, ret, post=None, opaque=False):
    """opaque=True: the definition is hidden (an uninterpreted function) unless a behaviour `reveal`s it"""
    def deco(fn):
        fn._spec_post = post
        fn._spec_opaque = opaque
        fn._spec_kind = "rec"
        fn._spec_args = tuple(args)
        fn._spec_ret = ret
        return fn
    return deco


def lemma(args, induct):
    """a universally quantified fact proved by structural induction on list argument `induct`
    (base and step are generated as separate obligations); used through `hints`"""
    def deco(fn):
        fn._spec_kind = "lemma"
        fn._spec_args = tuple(args)
        fn._spec_induct = induct
        return fn
    return deco
