"""Spec of the channel framing, from the statements of C05 / C19: a packet is a 4-byte
big-endian length, one compression-flag byte, the payload and a trailing newline; zlib only
above the threshold and only if compression is enabled at the sender."""
from spec import spec, recspec
from spec.native import *  # noqa: F401,F403

C = None      # frame constants: reflected from rpyc.core.channel.Channel (C05) or the frozen reference (C19)


@spec
def frame_hdr(n, flag):
    return be32(n) + u8(flag)


@recspec(("bytes", "bool"), "bytes", opaque=True)
def frame(data, compressed):
    """the frame carrying packet `data`; `compressed` is the flag the sender actually chose"""
    if compressed:
        return frame_hdr(len(zcomp(data, C.LEVEL)), 1) + zcomp(data, C.LEVEL) + C.FLUSHER
    return frame_hdr(len(data), 0) + data + C.FLUSHER


@spec
def published_flag(data, compress_enabled):
    """C19: zlib is used only above the threshold (and only if the sender has compression enabled)"""
    return compress_enabled and len(data) > C.THRESHOLD


@spec
def fits(data):
    """format limit: the length field has 32 bits (either form of the packet)"""
    return len(data) < 2 ** 32 and len(zcomp(data, C.LEVEL)) < 2 ** 32


@spec
def fits_sent(data, compress_enabled):
    """the form of the packet that is actually sent (compressed above the threshold) fits the length field"""
    if published_flag(data, compress_enabled):
        return len(zcomp(data, C.LEVEL)) < 2 ** 32
    return len(data) < 2 ** 32
