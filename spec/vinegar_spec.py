"""Spec functions for the exception serializer (C09)."""
from spec import spec, recspec, lemma
from spec.native import *  # noqa: F401,F403


@recspec(("vl",), "bool")
def all_str(l):
    """every item is a text (what dir() returns; attribute names)"""
    if isnil(l):
        return True
    return isstr(head(l)) and all_str(tail(l))


@spec
def kept_or_repr(item, appended, repr_text):
    """how one argument / attribute value travels: itself if it is a plain value, else the text repr() gave for it"""
    return same(appended, item) if plain(item) else same(appended, repr_text)


@recspec(("vl",), "val")
def last(l):
    """the last item of a non-empty list"""
    if isnil(tail(l)):
        return head(l)
    return last(tail(l))


@lemma((("a", "vl"), ("x", "val")), induct="a")
def last_snoc(a, x):
    return same(last(snoc(a, x)), x)


@spec
def class_ok(cls, modname, clsname, custom_allowed):
    """the class an exception record may be rebuilt as: the real class found under the record's names - in any imported
    module only when custom classes may be instantiated, else in the built-in exceptions module only - provided it IS an
    exception class; otherwise the generic stand-in named after the original"""
    if is_exception_class(cls) and custom_allowed and same(cls, module_attr(sys_module(modname), clsname)):
        return True
    if is_exception_class(cls) and not custom_allowed and modname == BUILTINS_NAME and same(cls, module_attr(BUILTINS_MODULE, clsname)):
        return True
    return is_generic_exception_class(cls) and same(class_name(cls), text_format('%s.%s', cons(modname, cons(clsname, nil()))))
