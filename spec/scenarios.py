"""Ghost clients (scenarios): code of /verif that only CALLS repository functions.  Each is verified by the
same engine against the CONTRACTS of what it calls, like any other caller; its postcondition is a
property-level lemma (C03 identity, C10 counts).  A label travels between the two connections by value
(it is a plain value: Connection._box.result_is_plain; transport and serializer: C04 / C05), so the
scenario hands the very value over."""


def echo_returns_the_original(owner, peer, v):
    pkg = owner._box(v)             # the owner lends v: a remote-reference label
    p = peer._unbox(pkg)            # the peer receives it: a proxy
    back = peer._box(p)             # the peer hands the reference back: a local-reference label
    return owner._unbox(back)       # the owner resolves it through its own table


def value_travels_by_copy(owner, peer, v):
    return peer._unbox(owner._box(v))


def same_object_same_proxy(owner, peer, v):
    p1 = peer._unbox(owner._box(v))
    p2 = peer._unbox(owner._box(v))
    return (p1, p2)


def forged_reference_is_refused(owner, forged_id):
    return owner._unbox((3, forged_id))         # consts.LABEL_LOCAL_REF
