"""Spec functions for the connection protocol (C08, C12, C01, C19): message layout, the byte
stream produced by a list of queued packets."""
from spec import spec, recspec, lemma
from spec.native import *  # noqa: F401,F403


@recspec(("vl", "bool"), "bytes")
def frames(l, compress):
    """the bytes n queued packets produce on the wire, in order, each as one contiguous frame"""
    if isnil(l):
        return empty()
    return frame(as_bytes(head(l)), published_flag(as_bytes(head(l)), compress)) + frames(tail(l), compress)


@recspec(("vl", "bool"), "bool")
def all_fit(l, compress):
    """every queued item is a byte string whose transmitted form is within the format's 32-bit length limit"""
    if isnil(l):
        return True
    return isbytes(head(l)) and fits_sent(as_bytes(head(l)), compress) and all_fit(tail(l), compress)


@lemma((("a", "vl"), ("b", "vl"), ("c", "bool")), induct="a")
def frames_app(a, b, c):
    return frames(app(a, b), c) == frames(a, c) + frames(b, c)


@lemma((("a", "vl"), ("b", "vl"), ("c", "bool")), induct="a")
def all_fit_app(a, b, c):
    return all_fit(app(a, b), c) == (all_fit(a, c) and all_fit(b, c))


@spec
def message(kind, seq, args):
    """C19: a message is the brine encoding of the triple (kind, seq, args)"""
    return enc(mktuple(cons(kind, cons(seq, cons(args, nil())))))
