"""Spec of the registry's table (C18): the abstract view is the set of live registrations (name, address) with the time of
their last refresh; the code keeps it as name -> {address: time}."""
from spec import spec
from spec.native import *  # noqa: F401,F403


@spec
def registered(d, name, addr):
    """(name, addr) is a live registration"""
    return haskey(d, name) and haskey(d[name], addr)


@spec
def refreshed_at(d, name, addr):
    return num_of(d[name][addr])
