"""Spec functions for the servers (C17)."""
from spec import spec, recspec
from spec.native import *  # noqa: F401,F403


@recspec(("val", "vl"), "bool")
def member(x, l):
    """x occurs in the list l"""
    if isnil(l):
        return False
    return same(x, head(l)) or member(x, tail(l))
