"""Spec functions for the proxy forwarding table (C02)."""
from . import spec


@spec
def slicer_target(name):
    """old-style slicing methods are forwarded under the name of the item method that replaces them"""
    return '__getitem__' if name == '__getslice__' else ('__delitem__' if name == '__delslice__' else '__setitem__')
