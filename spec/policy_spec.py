"""Spec of the attribute-access policy, written from the statement of C06:
the kind of operation must be enabled AND ( the name is allowed - everything / exposed-prefix /
safe-list / public, as enabled - OR the object has an exposed-prefixed twin, which is then what
is accessed ); anything else fails with AttributeError and has no effect."""
from spec import spec
from spec.native import *  # noqa: F401,F403


@spec
def on(cfg, key):
    """a configuration switch is set"""
    return truthy(cfg[key])


@spec
def name_allowed(cfg, name):
    return (on(cfg, "allow_all_attrs")
            or (on(cfg, "allow_exposed_attrs") and startswith(name, as_str(cfg["exposed_prefix"])))
            or (on(cfg, "allow_safe_attrs") and val_contains(cfg["safe_attrs"], name))
            or (on(cfg, "allow_public_attrs") and not startswith(name, "_")))


@spec
def twin_name(cfg, name):
    return as_str(cfg["exposed_prefix"]) + name


@spec
def has_twin(cfg, obj, name):
    return (on(cfg, "allow_exposed_attrs") and len(as_str(cfg["exposed_prefix"])) > 0
            and has_attr(obj, twin_name(cfg, name)))


@spec
def permitted(cfg, obj, name, perm):
    return on(cfg, perm) and (name_allowed(cfg, name) or has_twin(cfg, obj, name))


@spec
def resolves_correctly(cfg, obj, name, res):
    """which attribute is accessed when access is permitted: the twin if the name itself is not
    allowed; the name itself if there is no twin; either of the two if both hold (the statement
    does not choose; the code prefers the name when the object has it)"""
    if not name_allowed(cfg, name):
        return res == twin_name(cfg, name)
    if not has_twin(cfg, obj, name):
        return res == name
    return res == name or res == twin_name(cfg, name)


@spec
def text_of(name):
    """the attribute name as text: text itself, or the UTF-8 decoding of a byte string"""
    if isstr(name):
        return as_str(name)
    return unutf8(as_bytes(name))


@spec
def right_call(cfg, obj, name, args, hook, default, perm, fn, cargs):
    """the one access performed by _access_attr: the object's own hook with the UNCHECKED name, or - only if
    the policy permits - the default accessor with the name the policy resolves to; always on `obj` itself
    and with exactly the extra arguments given"""
    if not isnone(hook):
        return same(fn, hook) and cargs == cons(obj, cons(mkstr(text_of(name)), args))
    return (permitted(cfg, obj, text_of(name), perm) and same(fn, default)
            and isstr(head(tail(cargs)))
            and resolves_correctly(cfg, obj, text_of(name), as_str(head(tail(cargs))))
            and cargs == cons(obj, cons(head(tail(cargs)), args)))
