"""Spec of the brine value encoding, written from the property statements C04 / C19
(tag table, length classes 0,1,2,3,4 / 5..255 / 256+, immediate integers, decimal long
integers, 8-byte big-endian floats, 16-byte complex).  `T` is the tag table: the table
reflected from the running module for C04 (which does not care which byte a tag is), the
frozen 5.x reference table for C19."""
from spec import spec, recspec
from spec.native import *  # noqa: F401,F403  (native twins of the primitives)

T = None      # set by the harness (native runs); the symbolic compiler binds `T` as a spec constant


# ---------------------------------------------------------------------------------------------
# lists
# ---------------------------------------------------------------------------------------------
@recspec(("vl",), "int", post="result >= 0")
def vlen(l):
    if isnil(l):
        return 0
    return 1 + vlen(tail(l))


@recspec(("vl", "val"), "vl")
def snoc(l, x):
    if isnil(l):
        return cons(x, nil())
    return cons(head(l), snoc(tail(l), x))


@recspec(("vl", "vl"), "vl")
def app(a, b):
    if isnil(a):
        return b
    return cons(head(a), app(tail(a), b))


# ---------------------------------------------------------------------------------------------
# which values are plain (the statement's list, by exact type)
# ---------------------------------------------------------------------------------------------
@recspec(("val",), "bool")
def plain(v):
    if istuple(v):
        return plain_list(items(v))
    if isfset(v):
        return plain_list(fitems(v))
    if isslice(v):
        return plain(slice_start(v)) and plain(slice_stop(v)) and plain(slice_step(v))
    return not isref(v)


@recspec(("vl",), "bool")
def plain_list(l):
    if isnil(l):
        return True
    return plain(head(l)) and plain_list(tail(l))


# scope of the claim (C04 "Assumes"): every length / digit count fits the 32-bit length field,
# and every integer can be rendered as text by the interpreter
@recspec(("val",), "bool")
def sized(v):
    if isint(v):
        return renderable(as_int(v)) and len(dec(as_int(v))) < 2 ** 32
    if isbytes(v):
        return len(as_bytes(v)) < 2 ** 32
    if isstr(v):
        return len(utf8(as_str(v))) < 2 ** 32
    if istuple(v):
        return vlen(items(v)) < 2 ** 32 and sized_list(items(v))
    if isfset(v):
        return vlen(fitems(v)) < 2 ** 32 and sized_list(fitems(v))
    if isslice(v):
        return sized(slice_start(v)) and sized(slice_stop(v)) and sized(slice_step(v))
    return True


@recspec(("vl",), "bool")
def sized_list(l):
    if isnil(l):
        return True
    return sized(head(l)) and sized_list(tail(l))


# text that the strict UTF-8 encoder accepts (lone surrogates are not); NOT part of the
# statement's scope: "any text" must be serializable
@recspec(("val",), "bool")
def textok(v):
    if isstr(v):
        return utf8_ok(as_str(v))
    if istuple(v):
        return textok_list(items(v))
    if isfset(v):
        return textok_list(fitems(v))
    if isslice(v):
        return textok(slice_start(v)) and textok(slice_stop(v)) and textok(slice_step(v))
    return True


@recspec(("vl",), "bool")
def textok_list(l):
    if isnil(l):
        return True
    return textok(head(l)) and textok_list(tail(l))


# well-formedness of the model of frozensets: the item list stored in a VFset is canonical
@recspec(("val",), "bool")
def wf(v):
    if istuple(v):
        return wf_list(items(v))
    if isfset(v):
        return canon(fitems(v)) == fitems(v) and hashable_list(fitems(v)) and wf_list(fitems(v))
    if isslice(v):
        return wf(slice_start(v)) and wf(slice_stop(v)) and wf(slice_step(v))
    return True


@recspec(("vl",), "bool")
def wf_list(l):
    if isnil(l):
        return True
    return wf(head(l)) and wf_list(tail(l))


# ---------------------------------------------------------------------------------------------
# the encoding
# ---------------------------------------------------------------------------------------------
@spec
def enc_bytes(b):
    n = len(b)
    if n == 0:
        return T.EMPTY_STR
    if n == 1:
        return T.STR1 + b
    if n == 2:
        return T.STR2 + b
    if n == 3:
        return T.STR3 + b
    if n == 4:
        return T.STR4 + b
    if n < 256:
        return T.STR_L1 + u8(n) + b
    return T.STR_L4 + be32(n) + b


@spec
def tup_hdr(n):
    if n == 0:
        return T.EMPTY_TUPLE
    if n == 1:
        return T.TUP1
    if n == 2:
        return T.TUP2
    if n == 3:
        return T.TUP3
    if n == 4:
        return T.TUP4
    if n < 256:
        return T.TUP_L1 + u8(n)
    return T.TUP_L4 + be32(n)


@spec
def enc_int(i):
    if T.IMM_LO <= i and i < T.IMM_HI:
        return u8(i + T.IMM_OFF)
    d = dec(i)
    if len(d) < 256:
        return T.INT_L1 + u8(len(d)) + d
    return T.INT_L4 + be32(len(d)) + d


@recspec(("val",), "bytes")
def enc(v):
    if isnone(v):
        return T.NONE
    if isnotimpl(v):
        return T.NOT_IMPLEMENTED
    if isellipsis(v):
        return T.ELLIPSIS
    if isbool(v):
        return T.TRUE if as_bool(v) else T.FALSE
    if isint(v):
        return enc_int(as_int(v))
    if isfloat(v):
        return T.FLOAT + f64bytes(as_float(v))
    if iscomplex(v):
        return T.COMPLEX + f64bytes(re_of(v)) + f64bytes(im_of(v))
    if isbytes(v):
        return enc_bytes(as_bytes(v))
    if isstr(v):
        return T.UNICODE + enc_bytes(utf8(as_str(v)))
    if istuple(v):
        return tup_hdr(vlen(items(v))) + enc_list(items(v))
    if isfset(v):
        return T.FSET + enc(mktuple(order_of(fitems(v))))
    if isslice(v):
        return T.SLICE + enc(mktuple(cons(slice_start(v), cons(slice_stop(v), cons(slice_step(v), nil())))))
    return empty()


@recspec(("vl",), "bytes")
def enc_list(l):
    if isnil(l):
        return empty()
    return enc(head(l)) + enc_list(tail(l))


# predicates invariant under permutation of a list (used by the model of tuple(frozenset))
PERM_INVARIANT = ["vlen", "plain_list", "sized_list", "textok_list", "wf_list", "hashable_list"]


# ---------------------------------------------------------------------------------------------
# list lemmas (each proved by structural induction: obligations lemma:<name>/base, /step)
# ---------------------------------------------------------------------------------------------
from spec import lemma  # noqa: E402


@lemma((("a", "vl"), ("x", "val"), ("t", "vl")), induct="a")
def app_snoc(a, x, t):
    return app(snoc(a, x), t) == app(a, cons(x, t))


@lemma((("a", "vl"),), induct="a")
def app_nil(a):
    return app(a, nil()) == a


@lemma((("a", "vl"), ("x", "val")), induct="a")
def plain_snoc(a, x):
    return plain_list(snoc(a, x)) == (plain_list(a) and plain(x))


@lemma((("a", "vl"), ("b", "vl")), induct="a")
def vlen_app(a, b):
    return vlen(app(a, b)) == vlen(a) + vlen(b)


@lemma((("a", "vl"), ("x", "val"), ("t", "vl")), induct="a")
def app_app1(a, x, t):
    return app(app(a, cons(x, nil())), t) == app(a, cons(x, t))


@lemma((("a", "vl"), ("x", "val")), induct="a")
def sized_snoc(a, x):
    return sized_list(snoc(a, x)) == (sized_list(a) and sized(x))


@lemma((("a", "vl"), ("x", "val")), induct="a")
def vlen_snoc(a, x):
    return vlen(snoc(a, x)) == vlen(a) + 1


@lemma((("a", "vl"), ("x", "val")), induct="a")
def snoc_is_app(a, x):
    return snoc(a, x) == app(a, cons(x, nil()))
