"""Spec of boxing (C03, C10, C01): how a value travels - by copy if it is plain, item-wise if it is a
tuple, as a local-reference label if it is a proxy of this very connection, as a remote reference
otherwise; and how many boxes each lent id gains."""
from spec import spec, recspec, lemma
from spec.native import *  # noqa: F401,F403


@spec
def own_proxy(v, conn):
    """v is a proxy whose connection IS conn (a reference handed back to its owner)"""
    return is_netref(v) and same(netref_conn(v), conn)


@recspec(("val", "val"), "val")
def boxed(v, conn):
    if plain(v):
        return pair(LABEL_VALUE, v)
    if istuple(v):
        return pair(LABEL_TUPLE, mktuple(boxed_list(items(v), conn)))
    if own_proxy(v, conn):
        return pair(LABEL_LOCAL_REF, netref_idpack(v))
    return pair(LABEL_REMOTE_REF, id_pack(v))


@recspec(("vl", "val"), "vl")
def boxed_list(l, conn):
    if isnil(l):
        return nil()
    return cons(boxed(head(l), conn), boxed_list(tail(l), conn))


@recspec(("val", "val", "val"), "int", post="result >= 0")
def occ(v, conn, k):
    """how many boxes the lent id k gains when v is boxed: one per occurrence of a non-plain object with that id
    that is not a proxy of this connection (a tuple containing it n times counts n)"""
    if plain(v):
        return 0
    if istuple(v):
        return occ_list(items(v), conn, k)
    if own_proxy(v, conn):
        return 0
    return 1 if same(id_pack(v), k) else 0


@recspec(("vl", "val", "val"), "int", post="result >= 0")
def occ_list(l, conn, k):
    if isnil(l):
        return 0
    return occ(head(l), conn, k) + occ_list(tail(l), conn, k)
