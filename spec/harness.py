"""Native harness objects for replay / bounded runs of the stateful functions: scripted fakes
of the EXTERNALS only (socket, pipe ends, clock) around the REAL repository classes.
A fake tracks the same ghost state the library models talk about (inbuf, outbuf, failed,
closed, shut_attempted), so contract clauses evaluate on it unchanged."""
import errno
import os
import random
import socket


class FakeSocket(object):
    """script: list of actions consumed by successive recv()/send() calls:
       ("data", n) deliver up to n bytes | ("timeout",) | ("eagain",) | ("eof",) | ("error", errno)
       when the script is exhausted: deliver everything asked for (recv) / accept everything (send);
       recv on an exhausted input returns b'' (end of stream)"""

    def __init__(self, inbuf=b"", script=(), send_script=()):
        self.inbuf = bytes(inbuf)
        self.outbuf = b""
        self.script = list(script)
        self.send_script = list(send_script)
        self.failed = False
        self.closed = False
        self.shut_attempted = False
        self.has_timeout = False
        self.calls = []

    def __repr__(self):
        return "FakeSocket(inbuf=%d bytes, script=%r, send_script=%r)" % (len(self.inbuf), self.script[:8], self.send_script[:8])

    def _act(self, script):
        return script.pop(0) if script else None

    def recv(self, k):
        assert k > 0, "recv(%r)" % (k,)
        a = self._act(self.script)
        self.calls.append(("recv", k, a))
        if a is None:
            a = ("data", k)
        if a[0] == "timeout":
            raise socket.timeout("timed out")
        if a[0] == "eagain":
            raise socket.error(errno.EAGAIN, "try again")
        if a[0] == "error":
            self.failed = True
            raise socket.error(a[1], "scripted failure")
        if a[0] == "eof" or not self.inbuf:
            self.failed = True
            return b""
        n = max(1, min(k, a[1], len(self.inbuf)))
        out, self.inbuf = self.inbuf[:n], self.inbuf[n:]
        return out

    def send(self, data):
        a = self._act(self.send_script)
        self.calls.append(("send", len(data), a))
        if a is None:
            a = ("data", len(data))
        if a[0] in ("timeout",):
            self.failed = True
            raise socket.timeout("timed out")
        if a[0] in ("error", "eof", "eagain"):
            self.failed = True
            raise socket.error(a[1] if len(a) > 1 else errno.EPIPE, "scripted failure")
        n = min(len(data), a[1])
        self.outbuf += bytes(data[:n])
        return n

    def shutdown(self, how):
        self.shut_attempted = True

    def close(self):
        self.closed = True

    def fileno(self):
        return 99


def scripts(rng, total):
    """fragmentation / fault patterns for an input of `total` bytes"""
    out = [[], [("data", 1)] * min(total, 40), [("timeout",), ("data", 3), ("eagain",), ("data", 2), ("timeout",)],
           [("data", 2), ("eof",)], [("error", errno.ECONNRESET)], [("eof",)],
           [("data", 4), ("error", errno.EPIPE)], [("data", 5), ("timeout",), ("timeout",), ("data", 1), ("eagain",)]]
    for _ in range(4):
        out.append([rng.choice([("data", rng.randrange(1, 70000)), ("timeout",), ("eagain",)]) for _ in range(rng.randrange(1, 12))])
    out.append([("data", rng.randrange(1, 9))] * 6 + [("eof",)])
    return out


def payloads(rng):
    sizes = [0, 1, 2, 100, 2999, 3000, 3001, 63993, 63994, 63995, 63996, 64000, 64001, 70000, 200001]
    out = []
    for n in sizes:
        out.append(b"a" * n)
        out.append(bytes(rng.getrandbits(8) for _ in range(n)) if n <= 70000 else os.urandom(n))
    # payloads that begin / end with the bytes the frame itself is made of (the flusher newline, NULs as in a length field)
    for core in (b"", b"abc", b"a" * 2999):
        for edge in (b"\n", b"\n\n\n", b"\x00", b"\x00\x00\x00\x00\x01"):
            out.append(core + edge)
            out.append(edge + core)
    return out


def socketstreams(rng):
    """factories of real SocketStream objects over scripted fake sockets"""
    from rpyc.core.stream import SocketStream
    facs = []
    data = bytes(range(256)) * 600
    for sc in scripts(rng, len(data)):
        for ss in ([], [("data", 1), ("data", 7)], [("data", 3), ("error", errno.EPIPE)], [("timeout",)],
                   [("data", 0), ("data", 5)]):
            facs.append(lambda sc=sc, ss=ss: SocketStream(FakeSocket(data, sc, ss)))
    return facs


def channels(rng, inbuf=None):
    from rpyc.core.stream import SocketStream
    from rpyc.core.channel import Channel
    facs = []
    for compress in (True, False):
        for sc in scripts(rng, 1000)[:6]:
            for ss in ([], [("data", 1), ("data", 7)], [("data", 3), ("error", errno.EPIPE)], [("data", 64000), ("timeout",)]):
                facs.append(lambda c=compress, sc=sc, ss=ss: Channel(SocketStream(FakeSocket(inbuf or b"", sc, ss)), c))
    return facs


def mkchannel(inbuf, script=(), compress=True):
    from rpyc.core.stream import SocketStream
    from rpyc.core.channel import Channel
    return Channel(SocketStream(FakeSocket(inbuf, script)), compress)


class FakePipeEnd(object):
    """a pipe end whose fileno() is a real descriptor of an os.pipe(); the harness pre-loads the
    pipe with `inbuf` (read end) and reads back what was written (write end)"""

    def __init__(self, inbuf=None):
        self.r, self.w = os.pipe()
        self.closed = False
        self.failed = False
        self.reading = inbuf is not None
        self._inbuf = b""
        if inbuf is not None:
            inbuf = bytes(inbuf)[:4000]
            os.write(self.w, inbuf)
            os.close(self.w)
            self.w = None
            self._inbuf = inbuf

    def fileno(self):
        return self.r if self.reading else self.w

    @property
    def inbuf(self):
        return self._pending()

    def _pending(self):
        import fcntl, termios, struct
        if self.r is None:
            return getattr(self, "_last_pending", b"")
        buf = fcntl.ioctl(self.r, termios.FIONREAD, struct.pack("i", 0))
        n = struct.unpack("i", buf)[0]
        self._last_pending = self._inbuf[len(self._inbuf) - n:] if n else b""
        return self._last_pending

    @property
    def outbuf(self):
        import fcntl, termios, struct
        n = struct.unpack("i", fcntl.ioctl(self.r, termios.FIONREAD, struct.pack("i", 0)))[0]
        if n:
            self._out = getattr(self, "_out", b"") + os.read(self.r, n)
        return getattr(self, "_out", b"")

    def close(self):
        self.closed = True
        for fd in (self.r, self.w):
            if fd is not None:
                try:
                    os.close(fd)
                except OSError:
                    pass
        self.r = self.w = None

    def flush(self):
        pass


def pipestreams(rng):
    from rpyc.core.stream import PipeStream
    data = bytes(range(256)) * 100
    return [lambda: PipeStream(FakePipeEnd(data), FakePipeEnd()), lambda: PipeStream(FakePipeEnd(b"abc"), FakePipeEnd()),
            lambda: PipeStream(FakePipeEnd(b""), FakePipeEnd())]


def cleanup(v):
    """release OS resources held by a harness object after a case"""
    for name in ("incoming", "outgoing"):
        end = getattr(v, name, None) if type(v).__name__ == "PipeStream" else None
        if isinstance(end, FakePipeEnd):
            end.close()


# ---------------------------------------------------------------------------------------------
# attribute policy (C06): real Connection objects with every switch setting, objects of every shape
# ---------------------------------------------------------------------------------------------
class _Shape(object):
    pass


def policy_objects():
    names = ["foo", "_priv", "__dunder__", "exposed_foo", "__add__", "x"]
    objs = []
    for has_name in (False, True):
        for has_twin in (False, True):
            for prefix in ("exposed_", "pub_"):
                o = _Shape()
                for n in names:
                    if has_name:
                        setattr(o, n, "plain:" + n)
                    if has_twin:
                        setattr(o, prefix + n, "twin:" + n)
                objs.append(o)
    return objs


def policy_connections(rng):
    import itertools
    from rpyc.core.protocol import Connection
    from rpyc.core.service import VoidService
    keys = ["allow_all_attrs", "allow_exposed_attrs", "allow_safe_attrs", "allow_public_attrs", "allow_getattr",
            "allow_setattr", "allow_delattr"]
    facs = []
    for bits in itertools.product((False, True), repeat=7):
        for prefix in ("exposed_", "", "pub_"):
            cfg = dict(zip(keys, bits), exposed_prefix=prefix)
            facs.append(lambda cfg=cfg: _mkconn(cfg))
    rng.shuffle(facs)
    return facs


def _mkconn(cfg):
    from rpyc.core.protocol import Connection
    from rpyc.core.service import VoidService
    c = Connection(VoidService(), None, cfg)
    c._closed = True           # no channel: keep __del__/close from touching it
    return c


def candidates_for(target, pname, sort, rng):
    if target.endswith("Connection._check_attr"):
        if pname == "self":
            return policy_connections(rng)
        if pname == "obj":
            return policy_objects()
        if pname == "name":
            return ["foo", "_priv", "__dunder__", "exposed_foo", "__add__", "x", "", "missing"]
        if pname == "perm":
            return ["allow_getattr", "allow_setattr", "allow_delattr"]
    return None
