"""Spec of the reference-counting table (C10): abstract view id -> (object, B) where B is the
number of boxes outstanding at the owner (slot count + 1, or 0 if the slot is absent)."""
from spec import spec
from spec.native import *  # noqa: F401,F403


@spec
def slot_ok(v):
    """type invariant of a stored slot: the 2-element list [object, count] with count >= 0"""
    return (istuple(v) and not isnil(items(v)) and not isnil(tail(items(v))) and isnil(tail(tail(items(v))))
            and isint(head(tail(items(v)))) and as_int(head(tail(items(v)))) >= 0)


@spec
def boxes(d, key):
    if haskey(d, key):
        return as_int(head(tail(items(d[key])))) + 1
    return 0


@spec
def lent(d, key):
    return head(items(d[key]))


@spec
def after_add(b):
    return b + 1


@spec
def after_decref(b, c):
    """a release notice carrying count c: the slot goes away when the count covers it"""
    if b <= c:
        return 0
    return b - c
