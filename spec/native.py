"""Native implementations of the spec primitives (the symbolic ones are in pyvc/specenv.py).
Values are ordinary Python objects; a `vl` is a Python list; an f64 is a Python float compared
by bit pattern."""
import struct
import zlib


def isnone(v): return v is None
def isnotimpl(v): return v is NotImplemented
def isellipsis(v): return v is Ellipsis
def isbool(v): return type(v) is bool
def isint(v): return type(v) is int
def isfloat(v): return type(v) is float
def iscomplex(v): return type(v) is complex
def isbytes(v): return type(v) is bytes
def isstr(v): return type(v) is str
def istuple(v): return type(v) is tuple
def isfset(v): return type(v) is frozenset
def isslice(v): return type(v) is slice
def isref(v): return type(v) not in (type(None), type(NotImplemented), type(Ellipsis), bool, int, float, complex,
                                     bytes, str, tuple, frozenset, slice)
def as_bool(v): return v
def as_int(v): return v
def as_float(v): return v
def re_of(v): return v.real
def im_of(v): return v.imag
def as_bytes(v): return v
def as_str(v): return v
def items(v): return list(v)
def fitems(v): return list(v)
def slice_start(v): return v.start
def slice_stop(v): return v.stop
def slice_step(v): return v.step
def isnil(l): return len(l) == 0
def head(l): return l[0]
def tail(l): return l[1:]
def cons(h, t): return [h] + list(t)
def nil(): return []
def mktuple(l): return tuple(l)
def mkfset(l): return frozenset(l)
def order_of(l): return list(l)          # natively a frozenset's item list is taken in its iteration order
def canon(l): return list(l)
def hashable_list(l):
    try:
        for x in l:
            hash(x)
        return True
    except TypeError:
        return False
def empty(): return b""
def u8(n): return bytes([n])
def be32(n): return struct.pack("!L", n)
def unbe32(b): return struct.unpack("!L", b)[0]
def f64bytes(f): return struct.pack("!d", f)
def utf8(s): return s.encode("utf8", "surrogatepass")
def utf8_ok(s):
    try:
        s.encode("utf8")
        return True
    except UnicodeEncodeError:
        return False
def dec(i): return str(i).encode("ascii")
def renderable(i):
    try:
        str(i)
        return True
    except ValueError:
        return False
def zcomp(d, lvl): return zlib.compress(d, lvl)
def implies(a, b): return (not a) or b
def iff(a, b): return bool(a) == bool(b)
def ite(c, a, b): return a if c else b
def nth(s, i): return s[i]
def startswith(s, p): return s.startswith(p)
def val(x): return x


def same_bits(a, b):
    """type-exact, bit-exact structural equality (True != 1, -0.0 != 0.0, NaN payloads compared)"""
    if type(a) is not type(b):
        return False
    if type(a) is float:
        return struct.pack("!d", a) == struct.pack("!d", b)
    if type(a) is complex:
        return struct.pack("!dd", a.real, a.imag) == struct.pack("!dd", b.real, b.imag)
    if type(a) is tuple:
        return len(a) == len(b) and all(same_bits(x, y) for x, y in zip(a, b))
    if type(a) is frozenset:
        if len(a) != len(b):
            return False
        rest = list(b)
        for x in a:
            for i, y in enumerate(rest):
                if same_bits(x, y):
                    del rest[i]
                    break
            else:
                return False
        return True
    if type(a) is slice:
        return same_bits(a.start, b.start) and same_bits(a.stop, b.stop) and same_bits(a.step, b.step)
    return a == b


def truthy(v): return bool(v)
def val_contains(c, x): return x in c
def has_attr(o, n): return hasattr(o, n)
def isvbool(v): return type(v) is bool
def haskey(d, k): return k in d
