#!/bin/sh
# run every check registered in MANIFEST.json (quick tier) and print its summary line
cd /verif
for p in $(python3 -c "import json;print(' '.join(c['property_id'] for c in json.load(open('MANIFEST.json'))['checks']))"); do
  out=$(./check $p 2>&1); rc=$?
  echo "$out" | tail -1 | cut -c1-170 | sed "s/^/[rc=$rc] /"
done
