#!/usr/bin/env python3
"""Print the prompt for a seeded-change sub-agent: property text + scratch worktree only."""
import json, sys
pid, wt = sys.argv[1], sys.argv[2]
extra = sys.argv[3] if len(sys.argv) > 3 else ""
for l in open('/verif/properties.jsonl'):
    p = json.loads(l)
    if p['id'] == pid:
        break
anch = "\n".join("  - %s (%s)" % (m['name'], m['where']) for m in p['anchors']['mechanism'])
print(f"""You are helping test a verification effort by seeding a realistic bug. You have your own scratch git worktree of the Python library tomerfiliba/rpyc (RPyC, a symmetric RPC library) at {wt} . Work ONLY inside {wt} (never touch /repo or /verif, never read /verif). The sandbox has no network. Run Python as /venv/bin/python ; run the test-suite from the worktree root as:  cd {wt} && /venv/bin/python -m pytest tests -q -p no:cacheprovider --timeout=900  (with cwd at the worktree root the worktree's rpyc package is the one imported; verify with /venv/bin/python -c "import rpyc;print(rpyc.__file__)" from that directory). 8 tests fail on the unchanged tree already (test_ssl, 6 in test_teleportation, test_win32pipes) - ignore those; 57 pass. Other agents may run the same suite concurrently and tests use fixed localhost ports, so if a test fails with an address-in-use / connection error, re-run that test file alone before concluding anything.

Here is a semantic property that the library is supposed to satisfy:

  Title: {p['title']}
  Statement: {p['statement']}
  Holds for: {p['quantifier']['text']}
  Code meant to make it hold:
{anch}

Your task: produce ONE small change (a patch) to the library source under {wt}/rpyc that BREAKS this property, while (a) the package still imports/compiles, and (b) all 57 currently-passing tests still pass with the change. The change should look like a plausible maintainer mistake or 'harmless refactoring' (off-by-one at a boundary, a wrong constant, a swapped argument, a dropped guard, a condition slightly weakened, a missing step on an error path, two sites that each look fine alone...). It must need something SPECIFIC to manifest - an unusual input, a particular boundary size, a multi-step sequence of operations, a fault at a particular point - and must not be exposed at once by ordinary use. Do not edit tests. Do not add new files under rpyc/. Keep the diff small (ideally 1-10 changed lines). {extra}

Then write a demonstration: a small standalone script {wt}/demo.py (run as: cd {wt} && /venv/bin/python demo.py) that exits 0 and prints PASS when the property holds for its scenario, and exits 1 and prints FAIL (with what was observed) when it does not. It must FAIL with your change and PASS on the unchanged code (check both: flip with `git diff -- rpyc > {wt}.mine.diff; git checkout -- rpyc; ...; git apply {wt}.mine.diff` - NEVER use `git stash`: the stash is shared with other agents' worktrees). The demo should exercise the real library (in-process is fine: e.g. rpyc.core.brine directly, or a connection pair over a socketpair/pipe with a server thread), must terminate within 60 seconds in both cases, and must not depend on network beyond localhost.

Finish with the change APPLIED in the worktree (uncommitted, so that `git -C {wt} diff -- rpyc` shows it) and demo.py present. In your final answer report: the diff, why it breaks the property, what specific circumstance it needs to manifest, the exact commands you ran to confirm (full test suite result with the change: number passed/failed; demo result with and without the change).""")
