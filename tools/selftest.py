#!/usr/bin/env python3
"""Seeded-mutant self-test: apply one edit at a time to a scratch copy of /repo, run the property
check against it (PYVC_REPO), delete the copy.  Usage: selftest.py <property> [mutant-id ...]"""
import importlib, os, shutil, subprocess, sys, tempfile
sys.path.insert(0, os.path.dirname(os.path.dirname(os.path.abspath(__file__))))
pid = sys.argv[1]
only = sys.argv[2:]
muts, harmless = [], []
for m in os.listdir(os.path.join(os.path.dirname(__file__), "..", "mutants")):
    if m.endswith(".py"):
        mod = importlib.import_module("mutants." + m[:-3])
        muts += [x for x in getattr(mod, "MUTANTS", []) if pid in x[4]]
        harmless += [x for x in getattr(mod, "HARMLESS", []) if pid in x[4]]
from concurrent.futures import ThreadPoolExecutor


def run_one(job):
    kind, (mid, f, old, new, _) = job
    d = tempfile.mkdtemp(prefix="pyvc-mut.")
    try:
        subprocess.run("git -C /repo archive HEAD | tar -x -C %s" % d, shell=True, check=True)
        p = os.path.join(d, f)
        s = open(p).read()
        if s.count(old) != 1:
            return (mid, kind, "SKIPPED (edit does not apply: %d matches)" % s.count(old))
        open(p, "w").write(s.replace(old, new))
        r = subprocess.run(["python3-vt", "-m", "pyvc.runner", pid, "--no-evidence"], cwd=os.path.join(os.path.dirname(__file__), ".."),
                           capture_output=True, text=True, env=dict(os.environ, PYVC_REPO=d, PYVC_OUT=os.path.join(d, "out")))
        viol = [l for l in r.stdout.splitlines() if l.startswith("VIOLATION")]
        if kind == "mutant":
            verdict = "KILLED" if r.returncode == 1 and viol else "SURVIVED (exit %d)" % r.returncode
        else:
            verdict = "QUIET" if r.returncode == 0 and not viol else "FALSE-ALARM (exit %d)" % r.returncode
        tail = (r.stdout.strip().splitlines() or [""])[-1][:150]
        extra = ""
        if "SURVIVED" in verdict or "FALSE" in verdict:
            extra = "\n" + r.stdout[-1200:] + r.stderr[-600:]
        return (mid, kind, verdict + "  " + tail + extra)
    finally:
        shutil.rmtree(d, ignore_errors=True)


jobs = [(k, m) for k, lst in (("mutant", muts), ("harmless", harmless)) for m in lst if not only or m[0] in only]
with ThreadPoolExecutor(max_workers=int(os.environ.get("SELFTEST_JOBS", "3"))) as tp:
    results = list(tp.map(run_one, jobs))
for r in results:
    print("%-40s %-9s %s" % r)
