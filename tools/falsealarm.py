#!/usr/bin/env python3
"""False-alarm test: apply one behaviour-preserving patch to a scratch copy of /repo and run every check whose targets live in
a file the patch touches.  A VIOLATION line (exit 1) on such a patch is a false alarm; exit 3 (stale contract / construct outside
the subset) means `cannot decide any more, the contract needs updating` and is reported separately.
Usage: falsealarm.py <patch.diff> [...]"""
import os, re, shutil, subprocess, sys, tempfile
sys.path.insert(0, os.path.dirname(os.path.dirname(os.path.abspath(__file__))))
from pyvc import props
VERIF = os.path.dirname(os.path.dirname(os.path.abspath(__file__)))
skip = set(os.environ.get("SKIP", "").split(","))
only = set(x for x in os.environ.get("ONLY", "").split(",") if x)
for patch in sys.argv[1:]:
    files = set(re.findall(r"^\+\+\+ b/(\S+)", open(patch).read(), re.M))
    plans = sorted(p for p, plan in props.PLANS.items() if p not in skip and (not only or p in only) and any(t.split("::")[0] in files for t in plan["targets"]))
    d = tempfile.mkdtemp(prefix="pyvc-fa.")
    try:
        subprocess.run("git -C /repo archive HEAD | tar -x -C %s" % d, shell=True, check=True)
        r = subprocess.run("cd %s && git init -q . && git apply %s" % (d, os.path.abspath(patch)), shell=True, capture_output=True, text=True)
        if r.returncode != 0:
            print("%-40s PATCH DOES NOT APPLY %s" % (os.path.basename(patch), r.stderr[:100]))
            continue
        for p in plans:
            r = subprocess.run(["python3-vt", "-m", "pyvc.runner", p, "--no-evidence"], cwd=VERIF, capture_output=True, text=True,
                               env=dict(os.environ, PYVC_REPO=d, PYVC_OUT=os.path.join(d, "out")))
            viol = [l for l in r.stdout.splitlines() if l.startswith("  failed obligation")]
            errs = [l for l in r.stdout.splitlines() if l.startswith("CHECKER-ERROR")]
            verdict = {0: "quiet", 1: "FALSE ALARM", 2: "undecided", 3: "stale/unsupported"}.get(r.returncode, "exit %d" % r.returncode)
            print("%-28s %-4s %-18s %s" % (os.path.basename(os.path.dirname(patch)) + "/" + os.path.basename(patch), p, verdict,
                                          (viol or errs or [""])[0][:150]))
            sys.stdout.flush()
    finally:
        shutil.rmtree(d, ignore_errors=True)
