#!/bin/sh
# scratch.sh <patch.diff> <command...>: run a command against a scratch copy of /repo with the patch applied
# (PYVC_REPO points at the copy); the copy is removed afterwards.
set -e
patch=$1; shift
d=$(mktemp -d /tmp/pyvc-scratch.XXXXXX)
trap 'rm -rf "$d"' EXIT
git -C /repo archive HEAD | tar -x -C "$d"
# include uncommitted changes of /repo's working tree as well
git -C /repo diff HEAD | (cd "$d" && git apply --allow-empty 2>/dev/null || true)
(cd "$d" && git apply "$patch")
PYVC_REPO="$d" "$@"
