#!/bin/sh
# harvest.sh <worktree-name> <seed-id>: save patch + demo of a sub-agent's scratch worktree, then remove the worktree
set -e
wt=/tmp/mut/$1; d=/verif/seeded/$2
mkdir -p $d
git -C $wt diff -- rpyc > $d/patch.diff
cp $wt/demo.py $d/demo.py
git -C /repo worktree remove --force $wt
rm -f /tmp/mut/$1.prompt
echo "saved $d: $(wc -l < $d/patch.diff) diff lines"
