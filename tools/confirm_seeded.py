#!/usr/bin/env python3
"""Confirm one seeded change myself and write its meta.json:
   scratch worktree of /repo (under /tmp) -> demo passes on the clean tree, fails with the patch; the pinned test suite
   still passes with the patch; then the property checks are run against the patched tree (PYVC_REPO).
   Usage: confirm_seeded.py <seed-dir-name> <property> [<check-to-run> ...]   (default check: the property itself)"""
import json, os, subprocess, sys, time, xml.etree.ElementTree as ET
VERIF = os.path.dirname(os.path.dirname(os.path.abspath(__file__)))
seed, prop = sys.argv[1], sys.argv[2]
checks = sys.argv[3:] or [prop]
sd = os.path.join(VERIF, "seeded", seed)
wt = "/tmp/seedws-%s" % seed
stable = set(json.load(open("/root/.vp/BASELINE.json"))["stable_pass"])
meta = {"seed": seed, "breaks_property": prop, "ran": []}
_desc = os.path.join(VERIF, "seeded", "DESCRIPTIONS.json")
if os.path.exists(_desc):
    meta.update(json.load(open(_desc)).get(seed, {}))


def sh(cmd, **kw):
    return subprocess.run(cmd, shell=True, capture_output=True, text=True, **kw)


def demo():
    r = sh("cd %s && PYTHONPATH=%s timeout 300 /venv/bin/python %s" % (wt, wt, os.path.join(sd, "demo.py")))
    return r.returncode, (r.stdout.strip().splitlines() or [""])[-1][:300]


sh("git -C /repo worktree remove --force %s" % wt)
r = sh("git -C /repo worktree add --detach %s HEAD" % wt)
assert r.returncode == 0, r.stderr
try:
    rc0, out0 = demo()
    meta["ran"].append({"step": "demonstration on the unchanged tree", "exit": rc0, "last_line": out0})
    r = sh("git -C %s apply %s" % (wt, os.path.join(sd, "patch.diff")))
    assert r.returncode == 0, r.stderr
    meta["files_changed"] = sh("git -C %s diff --stat" % wt).stdout.strip().splitlines()[:-1]
    r = sh("cd %s && /venv/bin/python -m compileall -q rpyc" % wt)
    meta["ran"].append({"step": "compileall with the change", "exit": r.returncode})
    rc1, out1 = demo()
    meta["ran"].append({"step": "demonstration with the change", "exit": rc1, "last_line": out1})
    junit = "/tmp/seedws-%s.junit.xml" % seed
    t0 = time.time()
    r = sh("cd %s && PYTHONPATH=%s /venv/bin/python -m pytest -ra -q -p no:cacheprovider --timeout=900 "
           "--continue-on-collection-errors --deselect tests/test_gdb.py::Test_GDB::test_gdb --junitxml=%s" % (wt, wt, junit))
    passed = set()
    try:
        for tc in ET.parse(junit).getroot().iter("testcase"):
            if not any(ch.tag in ("failure", "error", "skipped") for ch in tc):
                passed.add("%s::%s" % (tc.get("classname"), tc.get("name")))
    except Exception as e:
        meta["junit_error"] = str(e)
    missing = sorted(stable - passed)
    if missing:
        # tests use fixed localhost ports: a clash with another run makes them fail for reasons unrelated to the change; the
        # files of the missing tests are run once more on their own
        files = sorted({"tests/%s.py" % m.split(".")[1] for m in missing})
        junit2 = junit + ".retry"
        sh("cd %s && PYTHONPATH=%s /venv/bin/python -m pytest -q -p no:cacheprovider --timeout=900 --junitxml=%s %s" % (wt, wt, junit2, " ".join(files)))
        try:
            for tc in ET.parse(junit2).getroot().iter("testcase"):
                if not any(ch.tag in ("failure", "error", "skipped") for ch in tc):
                    passed.add("%s::%s" % (tc.get("classname"), tc.get("name")))
            os.unlink(junit2)
        except Exception as e:
            meta["junit_retry_error"] = str(e)
        meta["retried_alone"] = files
        missing = sorted(stable - passed)
    meta["ran"].append({"step": "pinned test suite with the change (57 baseline tests)", "baseline_tests_passing": len(stable & passed),
                        "baseline_tests_not_passing": missing, "seconds": round(time.time() - t0)})
    if os.path.exists(junit):
        os.unlink(junit)
    for c in checks:
        t0 = time.time()
        r = sh("cd %s && PYVC_REPO=%s PYVC_OUT=/tmp/seedws-%s.out python3-vt -m pyvc.runner %s --no-evidence" % (VERIF, wt, seed, c))
        viol = [l for l in r.stdout.splitlines() if l.startswith("VIOLATION")]
        failed = [l.strip() for l in r.stdout.splitlines() if l.strip().startswith("failed obligation")]
        meta["ran"].append({"step": "./check %s against the changed tree" % c, "exit": r.returncode, "violations": len(viol),
                            "first_failed_obligations": failed[:4], "summary": (r.stdout.strip().splitlines() or [""])[-1][:200],
                            "seconds": round(time.time() - t0)})
        sh("rm -rf /tmp/seedws-%s.out" % seed)
    meta["confirmed"] = bool(rc0 == 0 and rc1 != 0 and not missing)
    meta["detected_by"] = [c for c, s in zip(checks, meta["ran"][-len(checks):]) if s["exit"] == 1 and s["violations"]]
finally:
    sh("git -C /repo worktree remove --force %s" % wt)
    sh("rm -rf %s" % wt)
old = {}
mp = os.path.join(sd, "meta.json")
if os.path.exists(mp):
    old = json.load(open(mp))
old.update(meta)
json.dump(old, open(mp, "w"), indent=1)
print(seed, "confirmed" if meta.get("confirmed") else "NOT CONFIRMED", "detected by", meta.get("detected_by"))
